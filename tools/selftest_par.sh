#!/bin/bash
# Parallel form of tools/selftest.sh: the same patches and checks, $LANES (default 3) at a time.
# Every run uses its own scratch worktree, build tag and stats directory, so lanes do not interfere.
cd "$(dirname "$0")/.."
OUT=${OUT:-build/selftest.tsv}
mkdir -p build; : > $OUT
list=$(mktemp)
for f in mutants/*.diff; do echo "$f $(basename $f | cut -d- -f2) $(basename $f .diff)" >> $list; done
for d in seeded/*/; do id=$(basename $d); grep -q '"superseded"' $d/meta.json && continue; also=$(python3 -c "import json,sys; print(\",\".join(json.load(open(sys.argv[1])).get(\"also\",[])))" $d/meta.json 2>/dev/null); tier=$(python3 -c "import json,sys; print(json.load(open(sys.argv[1])).get(\"tier\",\"quick\"))" $d/meta.json 2>/dev/null); echo "$d/patch.diff ${id%-*}${also:+,$also} $id $tier" >> $list; done
one() {
  for p in $(echo $2 | tr , ' '); do
    line=$(tools/seedrun.py $1 $p ${4:-quick} 2>&1 | grep -E "exit=" | head -1)
    rc=$(echo "$line" | sed -n 's/.* exit=\([0-9]*\) .*/\1/p')
    sig=$(echo "$line" | sed -n 's/.*---- \(.*\)/\1/p' | cut -c1-160)
    printf "%s\t%s\t%s\t%s\n" "$3" "$p" "$rc" "$sig" >> $OUT
    echo "$3 $p exit=$rc $sig"
  done
}
export -f one; export OUT
# shuffle deterministically so that the expensive properties (C08, C17) are spread over the lanes
sort -t' ' -k3 $list | awk '{print NR%7, $0}' | sort -n -s -k1,1 | cut -d' ' -f2- | xargs -P ${LANES:-3} -L 1 bash -c 'one "$0" "$1" "$2" "$3"'
rm -f $list
echo "selftest: $(awk -F'\t' '$3==1' $OUT | wc -l) detected, $(awk -F'\t' '$3!=1' $OUT | wc -l) missed"
