/* Reference block decoder server (optional): liblz4's LZ4_decompress_safe_usingDict behind a pipe protocol.
 * Request : u32 srcLen, u32 dstCap, u32 dictLen, src bytes, dict bytes   (little endian)
 * Response: i32 ret (decoded size, or < 0), then ret bytes when ret >= 0
 * Built by /verif/check when gcc, lz4.h and liblz4 are present (they are on this image under /root/miniconda); the checks
 * that use it skip the comparison when it is not there. */
#include <stdio.h>
#include <stdlib.h>
#include <stdint.h>
#include <string.h>
#include <lz4.h>

static int rd(void *p, size_t n) { return fread(p, 1, n, stdin) == n; }

int main(void) {
    for (;;) {
        uint32_t h[3];
        if (!rd(h, sizeof h)) return 0;
        uint32_t srcLen = h[0], dstCap = h[1], dictLen = h[2];
        /* exact-size heap blocks: an out-of-bounds access of the reference decoder would at least not be hidden by slack */
        char *src = malloc(srcLen ? srcLen : 1), *dst = malloc(dstCap ? dstCap : 1), *dict = malloc(dictLen ? dictLen : 1);
        if (!src || !dst || !dict) return 2;
        if (srcLen && !rd(src, srcLen)) return 0;
        if (dictLen && !rd(dict, dictLen)) return 0;
        int32_t ret = LZ4_decompress_safe_usingDict(src, dst, (int)srcLen, (int)dstCap, dictLen ? dict : NULL, (int)dictLen);
        fwrite(&ret, 4, 1, stdout);
        if (ret > 0) fwrite(dst, 1, (size_t)ret, stdout);
        fflush(stdout);
        free(src); free(dst); free(dict);
    }
}
