#!/bin/bash
# Every stored patch (mutants/*.diff, seeded/*/patch.diff) must apply to /repo's HEAD and still build (default and -tags noasm).
# A repair in /repo can make a patch stale in either way; the self-test shows the second kind as exit 2.
export GOFLAGS=-mod=mod GOPROXY=off GOSUMDB=off GOTOOLCHAIN=local
wt=$(mktemp -d -u /tmp/checkpatches-XXXXXX)
git -C /repo worktree add -q --detach "$wt" HEAD || exit 2
bad=0
for m in /verif/mutants/*.diff /verif/seeded/*/patch.diff; do
  if ! git -C "$wt" apply "$m" 2>/dev/null; then echo "NOAPPLY $m"; bad=1; continue; fi
  if ! (cd "$wt" && go build ./... && go build -tags noasm ./...) >/dev/null 2>&1; then
    # (cmd/lz4c is its own module: patches that only touch it always pass here)
    echo "NOBUILD $m"; bad=1
  fi
  git -C "$wt" checkout -q -- . && git -C "$wt" clean -qfd
done
git -C /repo worktree remove --force "$wt"
[ $bad = 0 ] && echo "all patches apply and build"
exit $bad
