#!/usr/bin/env python3
"""Run the repository's own test suite with the verif guard OFF and compare with
/root/.vp/BASELINE.json: every stable_pass test must pass. Exit 0 iff so."""
import json, os, subprocess, sys
repo = os.environ.get("VERIF_REPO", "/repo")
base = json.load(open("/root/.vp/BASELINE.json"))
want = set(base["stable_pass"])
env = dict(os.environ, GOFLAGS="-mod=mod", GOPROXY="off", GOSUMDB="off", GOTOOLCHAIN="local", GOMAXPROCS="8")  # baseline names embed GOMAXPROCS (ConcurrencyOption(-1) -> 8)
p = subprocess.run(["go", "test", "-json", "-vet=off", "-count=1", "-timeout", "25m", "./..."],
                   cwd=repo, env=env, stdout=subprocess.PIPE, stderr=subprocess.STDOUT, text=True)
passed = set()
for line in p.stdout.splitlines():
    try:
        ev = json.loads(line)
    except Exception:
        continue
    if ev.get("Action") == "pass" and ev.get("Test"):
        passed.add(ev["Package"] + "::" + ev["Test"])
missing = sorted(want - passed)
print("baseline: %d/%d stable tests pass (guard off)" % (len(want & passed), len(want)))
for m in missing[:40]:
    print("  NOT PASSING:", m)
subprocess.run(["git", "-C", repo, "checkout", "--", "go.sum"], stderr=subprocess.DEVNULL)
sys.exit(1 if missing else 0)
