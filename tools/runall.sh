#!/bin/bash
# run every check of a tier; prints one line per property
tier=${1:-quick}
cd "$(dirname "$0")/.."
for p in C01 C02 C03 C04 C05 C06 C07 C08 C09 C10 C11 C12 C13 C14 C15 C16 C17 C18 C19 C20; do
  s=$(date +%s)
  out=$(./check $p $tier 2>&1); rc=$?
  e=$(( $(date +%s) - s ))
  echo "$p rc=$rc ${e}s $(echo "$out" | grep -E 'VIOLATION|KNOWN-FINDING|harness problem|held on' | head -3 | cut -c1-200)"
done
