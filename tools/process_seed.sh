#!/bin/bash
# ingest + run the property's quick check for both seeded changes of a property
cd /verif
for p in "$@"; do
  for i in 1 2; do
    [ -f ${SEED_DIR:-/tmp/wt}_$p/_seed/patch$i.diff ] || { echo "$p-$i: no patch" >> ${SEED_LOG:-build/seed_results.log}; continue; }
    r=$(tools/ingest_seed.py $p $i 2>&1 | python3 -c "
import sys,json,re
t=sys.stdin.read()
m=re.search(r'\{.*\}', t, re.S)
try:
    d=json.loads(m.group(0)); print('applies=%s builds=%s base=%s demoFailsWith=%s demoPassesWithout=%s %s' % (d.get('applies'),d.get('builds'),'180/180' in d.get('baseline',''),d.get('demo_fails_with_patch'),d.get('demo_passes_without_patch'),d.get('demo','')))
except Exception as e: print('INGEST PROBLEM', t[-300:])
")
    j=$((i + ${SEED_OFFSET:-0})); s=$(tools/seedrun.py seeded/$p-$j/patch.diff $p quick 2>&1 | grep exit= | head -1)
    echo "$p-$j: $r || $s" >> ${SEED_LOG:-build/seed_results.log}
  done
done
