#!/usr/bin/env python3
"""Run checks against a seeded change without touching /repo:
   tools/seedrun.py <patch.diff> <property>[,<property>...] [quick|thorough] [seed]
A scratch git worktree of /repo's HEAD is created under $TMPDIR, the patch is applied, the
checks run with VERIF_REPO pointing at it, and the worktree (with its build output) is removed."""
import os, shutil, subprocess, sys, tempfile, time
patch = os.path.abspath(sys.argv[1]); props = sys.argv[2].split(","); tier = sys.argv[3] if len(sys.argv) > 3 else "quick"
seed = sys.argv[4] if len(sys.argv) > 4 else "1"
wt = tempfile.mkdtemp(prefix="seedrun-")
os.rmdir(wt)
subprocess.run(["git", "-C", "/repo", "worktree", "add", "-q", "--detach", wt, "HEAD"], check=True)
try:
    r = subprocess.run(["git", "-C", wt, "apply", patch])
    if r.returncode != 0:
        print("PATCH DOES NOT APPLY"); sys.exit(3)
    for p in props:
        t0 = time.time()
        env = dict(os.environ, VERIF_REPO=wt, VERIF_SEED=seed)
        r = subprocess.run(["/verif/check", p, tier], env=env, stdout=subprocess.PIPE, stderr=subprocess.PIPE, text=True)
        lines = [l for l in r.stdout.splitlines() if l.startswith(("VIOLATION", "KNOWN"))]
        detail = [l for l in r.stderr.splitlines() if l.startswith("----")]
        print("%s %s exit=%d %.0fs %s %s" % (os.path.basename(os.path.dirname(patch)) + "/" + os.path.basename(patch), p, r.returncode, time.time() - t0, "; ".join(lines)[:300], " | ".join(detail)[:400]))
        if r.returncode == 2:
            print(r.stderr[-1500:])
finally:
    subprocess.run(["git", "-C", "/repo", "worktree", "remove", "--force", wt])
    import hashlib
    h = hashlib.md5(wt.encode()).hexdigest()[:8]
    for f in os.listdir("/verif/build"):
        if f.endswith("-" + h + ".test") or f.endswith("-" + h):
            pth = os.path.join("/verif/build", f)
            shutil.rmtree(pth, ignore_errors=True) if os.path.isdir(pth) else os.remove(pth)
