"""Per-property configuration of the driver: which test functions make up a check, which
build variant they need, how many shards the thorough tier uses."""

TRUST = [
    "the independent references in harness/ref (XXH32, block decoder, frame parser/encoder) are correct; they are cross-checked against the golden files written by the reference lz4 CLI and against published XXH32 vectors",
    "pgregory.net/rapid v1.3.0 generation and shrinking; the Go toolchain and runtime",
]


def simple(run, shards_thorough=16, variant="default", shards_quick=1, **kw):
    def steps(tier):
        st = dict(run=run, variant=variant, shards=(shards_thorough if tier == "thorough" else shards_quick))
        st.update(kw)
        return [st]
    return steps


PROPS = {
    "C01": dict(level="exploration", steps=simple("^TestC01"), assumptions=TRUST),
    "C13": dict(level="exploration", steps=simple("^TestC13", shards_thorough=4), assumptions=TRUST),
}
PROPS["C02"] = dict(level="exploration", steps=simple("^TestC02"), assumptions=TRUST)
PROPS["C09"] = dict(level="exploration", steps=simple("^(TestC09|TestRefGolden)"), assumptions=TRUST)
PROPS["C19"] = dict(level="exploration", steps=simple("^TestC19", shards_thorough=1), assumptions=TRUST)
PROPS["C06"] = dict(level="fault_enumeration", steps=simple("^TestC06"), assumptions=TRUST)
PROPS["C05"] = dict(level="exploration", steps=simple("^TestC05"), assumptions=TRUST)


def twin(run, shards_thorough=16):
    def steps(tier):
        return [dict(run=run, variant="default", shards=(shards_thorough if tier == "thorough" else 1), needs=["noasm"])]
    return steps


PROPS["C03"] = dict(level="exploration", steps=twin("^TestC03"), needs_twin=True, assumptions=TRUST)
PROPS["C04"] = dict(level="exploration", steps=twin("^TestC04"), needs_twin=True, assumptions=TRUST)
PROPS["C12"] = dict(level="exploration", steps=twin("^TestC12"), needs_twin=True, assumptions=TRUST)
PROPS["C10"] = dict(level="exploration", steps=simple("^TestC10"), assumptions=TRUST)
PROPS["C11"] = dict(level="exploration", steps=simple("^TestC11"), assumptions=TRUST)
PROPS["C17"] = dict(level="exploration", steps=simple("^TestC17", variant="bubble", shards_quick=4), default_variant="bubble", assumptions=TRUST + ["testing/synctest (Go 1.26.8): 'all goroutines durably blocked' detection is sound for channel operations; goroutines blocked on a mutex or in a syscall are not covered"])


def c08_steps(tier):
    th = tier == "thorough"
    sh = 4 if th else 1
    return [
        dict(run="^TestC08", variant="bubble", shards=(12 if th else 3), journal=True),
        dict(run="^TestC08", variant="bubble", shards=sh, journal=True, env={"GOMAXPROCS": "2", "VERIF_C08_SCALE": "30"}),
        dict(run="^TestC08", variant="bubble", shards=sh, journal=True, env={"GOMAXPROCS": "1", "VERIF_C08_SCALE": "30"}),
        dict(run="^TestC08", variant="race", shards=(12 if th else 3), journal=True, env={"VERIF_C08_SCALE": "40"}),
    ]


PROPS["C08"] = dict(level="exploration", steps=c08_steps, default_variant="bubble", assumptions=TRUST + [
    "testing/synctest (Go 1.26.8) detects 'all goroutines durably blocked' for channel operations; schedules are sampled (hook-site delays order the goroutines, the Go scheduler chooses in between)",
    "the Go race detector reports a race only when both accesses occur in the explored execution"])
PROPS["C16"] = dict(level="exploration", steps=simple("^TestC16"), assumptions=TRUST)


def c14_steps(tier):
    th = tier == "thorough"
    return [
        dict(run="^TestC14Blocks", variant="default", shards=(8 if th else 1)),
        dict(run="^TestC14Frames", variant="bubble", shards=(6 if th else 1)),
        dict(run="^TestC14Frames", variant="bubble", shards=(2 if th else 1), env={"GOMAXPROCS": "1", "VERIF_C14_SCALE": "40"}),
    ]


PROPS["C14"] = dict(level="exploration", steps=c14_steps, replay_variant={"C14/frame": "bubble", "C14/block": "default"}, assumptions=TRUST)
PROPS["C15"] = dict(level="fault_enumeration", steps=simple("^TestC15", shards_quick=2), assumptions=TRUST)
PROPS["C18"] = dict(level="exploration", steps=simple("^TestC18"), assumptions=TRUST)
