"""Per-property configuration of the driver: which test functions make up a check, which
build variant they need, how many shards the thorough tier uses."""

TRUST = [
    "the independent references in harness/ref (XXH32, block decoder, frame parser/encoder) are correct; they are cross-checked against the golden files written by the reference lz4 CLI and against published XXH32 vectors",
    "pgregory.net/rapid v1.3.0 generation and shrinking; the Go toolchain and runtime",
]


def simple(run, shards_thorough=16, variant="default", shards_quick=1, fuzz=None, **kw):
    def steps(tier):
        st = dict(run=run, variant=variant, shards=(shards_thorough if tier == "thorough" else shards_quick))
        st.update(kw)
        out = [st]
        if tier == "thorough" and fuzz:
            st["barrier"] = True
            out.append(dict(run="^$", variant=variant, fuzz=fuzz, fuzztime=240, journal=kw.get("journal", False)))
        if tier == "quick" and kw.get("noasm_quick"):
            # the portable decoder in the quick tier as well: the rapid campaign once more, built with -tags noasm (runs beside the other steps)
            out.append(dict(run=kw["noasm_quick"], variant="noasm", shards=1))
        if tier == "thorough" and kw.get("also386"):
            # the same tests built for GOARCH=386 (32-bit int and uint, portable code paths), at the quick tier's case counts
            v386 = "bubble386" if variant == "bubble" else "386"
            st386 = dict(run=run, variant=v386, shards=4, env={"VERIF_TIER": "quick"})
            if kw.get("journal"):
                st386["journal"] = True
            out.insert(1, st386)
        return out
    return steps


PROPS = {
    "C01": dict(level="exploration", steps=simple("^TestC01", shards_quick=2, fuzz="FuzzC10", also386=True, noasm_quick="^TestC01(Pinned)?$"), assumptions=TRUST),
    "C13": dict(level="exploration", steps=simple("^TestC13", shards_thorough=4, also386=True), assumptions=TRUST),
}
PROPS["C02"] = dict(level="exploration", steps=simple("^TestC02", also386=True), assumptions=TRUST)
PROPS["C09"] = dict(level="exploration", steps=simple("^(TestC09|TestRefGolden)", shards_quick=2, also386=True), assumptions=TRUST)
PROPS["C19"] = dict(level="exploration", steps=simple("^TestC19", shards_thorough=1), assumptions=TRUST)
PROPS["C06"] = dict(level="fault_enumeration", steps=simple("^TestC06", shards_quick=3, also386=True), assumptions=TRUST)
PROPS["C05"] = dict(level="exploration", steps=simple("^TestC05", shards_quick=2, fuzz="FuzzC05", also386=True), assumptions=TRUST)


def twin(run, shards_thorough=16, fuzz=None):
    def steps(tier):
        st = [dict(run=run, variant="default", shards=(shards_thorough if tier == "thorough" else 1), needs=["noasm"], barrier=True)]
        if tier == "thorough":
            # the decoder built for GOARCH=386 (32-bit length arithmetic) against the same oracles, quick-tier case counts
            st.append(dict(run=run, variant="386", shards=4, needs=["noasm"], barrier=True, env={"VERIF_TIER": "quick"}))
        if tier == "thorough" and fuzz:
            st.append(dict(run="^$", variant="default", needs=["noasm"], fuzz=fuzz, fuzztime=FUZZTIME))
        return st
    return steps


FUZZTIME = 240


PROPS["C03"] = dict(level="exploration", steps=twin("^TestC03", fuzz="FuzzC03"), needs_twin=True, assumptions=TRUST)
PROPS["C04"] = dict(level="exploration", steps=twin("^TestC04", fuzz="FuzzC03"), needs_twin=True, uses_lz4ref=True, assumptions=TRUST)
PROPS["C12"] = dict(level="exploration", steps=twin("^TestC12", fuzz="FuzzC03"), needs_twin=True, assumptions=TRUST)
PROPS["C10"] = dict(level="exploration", steps=simple("^TestC10", shards_quick=2, fuzz="FuzzC10", also386=True), uses_lz4ref=True, assumptions=TRUST)
PROPS["C11"] = dict(level="exploration", steps=simple("^TestC11", shards_quick=2, fuzz="FuzzC10", also386=True), assumptions=TRUST)
PROPS["C17"] = dict(level="exploration", steps=simple("^TestC17", variant="bubble", shards_quick=4, also386=True), default_variant="bubble", assumptions=TRUST + ["testing/synctest (Go 1.26.8): 'all goroutines durably blocked' detection is sound for channel operations; goroutines blocked on a mutex or in a syscall are not covered"])


def c08_steps(tier):
    th = tier == "thorough"
    sh = 4 if th else 1
    return [
        dict(run="^TestC08", variant="bubble", shards=(12 if th else 3), journal=True),
        dict(run="^TestC08", variant="bubble", shards=sh, journal=True, env={"GOMAXPROCS": "2", "VERIF_C08_SCALE": "30"}),
        dict(run="^TestC08", variant="bubble", shards=sh, journal=True, env={"GOMAXPROCS": "1", "VERIF_C08_SCALE": "30"}),
        dict(run="^TestC08", variant="race", shards=(12 if th else 3), journal=True, env={"VERIF_C08_SCALE": "40"}),
    ]


PROPS["C08"] = dict(level="exploration", steps=c08_steps, default_variant="bubble", assumptions=TRUST + [
    "testing/synctest (Go 1.26.8) detects 'all goroutines durably blocked' for channel operations; schedules are sampled (hook-site delays order the goroutines, the Go scheduler chooses in between)",
    "the Go race detector reports a race only when both accesses occur in the explored execution"])
PROPS["C16"] = dict(level="exploration", steps=simple("^TestC16", also386=True, noasm_quick="^TestC16(Pinned)?$"), assumptions=TRUST)


def c14_steps(tier):
    th = tier == "thorough"
    return [
        dict(run="^TestC14(Blocks|LongLived)", variant="default", shards=(8 if th else 2)),
        dict(run="^TestC14Frames", variant="bubble", shards=(6 if th else 1)),  # also matches TestC14FramesPinned
        dict(run="^TestC14Frames$", variant="bubble", shards=(2 if th else 1), env={"GOMAXPROCS": "1", "VERIF_C14_SCALE": "40"}),
    ]


PROPS["C14"] = dict(level="exploration", steps=c14_steps, replay_variant={"C14/frame": "bubble", "C14/block": "default"}, assumptions=TRUST)
PROPS["C15"] = dict(level="fault_enumeration", steps=simple("^TestC15", shards_quick=3), assumptions=TRUST)
PROPS["C18"] = dict(level="exploration", steps=simple("^TestC18", also386=True), assumptions=TRUST)
PROPS["C07"] = dict(level="exploration", steps=simple("^TestC07", variant="bubble", shards_quick=2, journal=True, fuzz="FuzzC07", also386=True), default_variant="bubble", assumptions=TRUST + [
    "testing/synctest (Go 1.26.8) for 'never blocks forever' and leaked goroutines; runtime.MemStats.TotalAlloc as the allocation meter"])
PROPS["C20"] = dict(level="exploration", steps=simple("^TestC20", shards_quick=4), needs_lz4c=True, assumptions=TRUST + ["/bin/sh and the filesystem of the sandbox (permission bits are compared under umask 0)"])

# ---- texts for MANIFEST.json (level, note, technique) ----
META = {
 "C01": ("rapid PBT, round trip + independent reference decoder",
         "Sampled search over the segment grammar and all compressor entry points / depths, on reused compressors; every emitted block is also decoded by an independent byte-at-a-time decoder. Pinned regimes for long-lived objects (exact call-count gaps around 2^8/2^16/2^17, 2^31..2^34 bytes through one object) and 9-33 MiB sources; thorough adds a native fuzz campaign (FuzzC10) and a GOARCH=386 build. Sampling, not proof: the input space is unbounded."),
 "C02": ("rapid PBT over the option matrix x delivery x reader, round-trip oracle",
         "Sampled search over options x input sizes around the block size x Write/Flush partitions or ReadFrom x reader configurations; oracle is the round trip plus a clean, repeatable end of stream. Legacy+Flush kernel-trailer ambiguity is a recorded known finding."),
 "C03": ("rapid PBT with guard-page arenas and canaries; assembly in process, portable decoder in a noasm twin process",
         "Block grammar / mutated compressor output / random / corpus inputs decoded with src, dst and dict flush against PROT_NONE pages and canaried spare capacity, in both builds; a fault becomes a recoverable panic (SetPanicOnFault). Sampling of an unbounded space."),
 "C04": ("rapid PBT, differential against an independent block decoder + metamorphic prefill relation",
         "Every case is judged by an independent decoder written from the block format (OK => same bytes, listed error classes => error), decoded three times over different prior destination contents, in both builds (thorough: also built for GOARCH=386). Pinned multi-megabyte shapes (2^20-byte literal runs, 2^32 length sums, 26-70 MiB overlapping matches, dictionary straddles). The independent decoder itself is validated against liblz4 when that is present."),
 "C05": ("structure-map mutation testing of valid frames against an independent frame parser",
         "Whenever the Reader reports a clean end of stream on a mutated frame, the independent frame implementation must accept exactly the consumed bytes with identical output. One-directional by design (rejecting is always allowed)."),
 "C06": ("crash-point enumeration: every prefix of generated frames x 6 reader configurations",
         "All prefix lengths of small frames (every option combination) and every structural boundary +-3 plus sampled interior points of larger ones are read with 6 reader configurations. Exhaustive per generated frame, sampled over frames."),
 "C07": ("rapid PBT of hostile inputs in synctest bubbles, allocation and reachable-heap meters, journaled crash-class inputs; thorough adds the full 2^32 first-word enumeration",
         "Random / mutated / hostile-field / skippable / deep-repetition inputs; termination and leaked goroutines decided by synctest bubbles, process death caught through a journaled case, allocation by MemStats; a slow consumer inside the bubble saturates the read-ahead and the reachable heap is measured after forced collections (bounded whatever the number of blocks). Thorough enumerates all 2^32 first words through ValidFrameHeader."),
 "C08": ("stateful PBT of concurrent Writer/Reader histories in synctest bubbles with generated hook-site schedules, pool poisoning, race detector",
         "Legal histories on concurrent objects run in bubbles (deadlock / leak detection is deterministic for channel blocking) with drawn delays at 17 hook sites, poisoned pool buffers, differential against the sequential Writer, and the same campaign under the race detector and with GOMAXPROCS 1/2/16. Schedules are sampled."),
 "C09": ("rapid PBT, conformance oracle = independent strict frame parser (and golden files from the reference CLI validate that parser)",
         "Every emitted byte stream (Writer.Write/ReadFrom, CompressingReader) must be exactly one strictly valid frame per an independent implementation of the frame specification, incl. inputs constructed so that a block's or the content's XXH32 is 0, blocks compressing to 1-3 bytes less than the block size, incompressible legacy blocks around the bound crossing and a stream above 4 GiB. When the reference lz4 command line tool is present, a sample of the frames is decoded by it and the independent parser is cross-checked against it on valid and mutated frames."),
 "C10": ("rapid PBT with an independent strict block validator",
         "Every positive result of any compressor, including partial successes into short destinations, is checked against the strictest reading of the block format (end-of-block rules), strictly decoded, and - when liblz4 is present on the machine - decoded by the reference library into exactly len(src) bytes. Same pinned regimes as C01."),
 "C11": ("destination-length enumeration per generated source in guard arenas with canaries",
         "For each generated source every destination length 0..bound+2 (small sources) or boundary classes (large) x spare capacity is tried with the destination in a guard arena; contract clauses are checked one by one."),
 "C12": ("differential PBT: assembly decoder vs portable decoder (noasm twin process) on the same case stream",
         "The two build configurations are compared on identical generated cases (outcome, n, bytes), including dictionaries of 4 GiB and, in the thorough tier, matches of 2 GiB and 4 GiB that are really decoded (outputs compared by digest). Only amd64 assembly vs portable (and, thorough, 386 portable) can be compared in this sandbox."),
 "C13": ("PBT + exhaustive tables against an independent XXH32; 4 GiB streams across the 2^32 boundary",
         "One-shot: all lengths 0..300 and generated data; streaming: generated op lists plus the complete (buffered 0..15 x next length) table; totals walked byte by byte across 2^32 (and 2^33)."),
 "C14": ("metamorphic PBT (fresh vs reused vs pooled-under-load compressors; sequential vs concurrent / partitioned / scheduled Writers)",
         "Outputs of runs that differ only in history, pool state, schedule, concurrency or Write partition must be byte-identical; pooled buffers are poisoned with a per-release pattern; frame half runs in bubbles."),
 "C15": ("fault-index enumeration on sink and source",
         "For each generated configuration every call index on the sink (and on the source) fails in turn (transient/persistent, partial writes); the error must surface as the injected one and prefixes must hold; fragmentation patterns must not change results."),
 "C16": ("rapid PBT over frames built by an independent dependent-block encoder",
         "Content is known by construction and cross-checked by the independent parser; matches reach across up to dozens of blocks at offsets up to 65535, with raw blocks in between; every reader configuration."),
 "C17": ("model-based stateful testing: exhaustive short call sequences + rapid histories, in synctest bubbles, differential against fresh objects",
         "Every call sequence up to length 4 (5) over a 12/10-call alphabet plus random histories are compared with a reference model of the life cycle; Reset-indistinguishability is checked byte-for-byte against really fresh objects; hangs and leaks by bubbles."),
 "C18": ("rapid PBT over Read-size sequences with the strict frame parser as oracle",
         "Per-call contract (bounds, progress, nothing beyond len(p)) and whole-stream conformance for generated buffer-size sequences aimed at the overflow-buffer states, with fragmenting / failing sources."),
 "C19": ("exhaustive enumeration of all 2^25 headers against an independent oracle",
         "The complete descriptor x layout x checksum-byte space is enumerated through ValidFrameHeader (and Reader.Read+Size on all well-checksummed headers and a sample of the others); non-magic first words enumerated around the reserved values."),
 "C20": ("PBT over files x flags through the built binary, differential against the library Writer",
         "The lz4c binary is built from the working tree and run on generated files and flag sets; outputs are judged by the independent frame parser, by the usage text, by byte equality with the library Writer (for -l) and by a full compress/uncompress cycle incl. permission bits."),
}
for _pid, (_tech, _text) in META.items():
    if _pid in PROPS:
        PROPS[_pid].setdefault("technique", _tech)
        PROPS[_pid].setdefault("level_text", _text)
