#!/opt/veriftools/pyvenv/bin/python
import json, sys, glob, jsonschema
jsonschema.validate(json.load(open('/verif/MANIFEST.json')), json.load(open('/root/.vp/MANIFEST.schema.json')))
es = json.load(open('/root/.vp/EVIDENCE.schema.json'))
for p in sorted(glob.glob('/verif/evidence/*.json') + glob.glob('/verif/evidence/thorough/*.json')):
    jsonschema.validate(json.load(open(p)), es)
print("manifest and %d evidence files valid" % len(glob.glob('/verif/evidence/*.json')))
