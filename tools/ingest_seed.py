#!/usr/bin/env python3
"""Confirm a seeded change delivered by a sub-agent and store it under /verif/seeded/<id>/.
   tools/ingest_seed.py C10 1        (reads /tmp/wt_C10/_seed/patch1.diff, demo1*, notes1.md)
Confirms in a scratch worktree: patch applies, builds (also -tags noasm), baseline 180/180, demo FAILS with the
patch and PASSES without it. Then runs the property's quick check against it (tools/seedrun.py)."""
import glob, json, os, re, shutil, subprocess, sys, tempfile
pid, i = sys.argv[1], sys.argv[2]
src = os.environ.get("SEED_SRC", "/tmp/wt_%s") % pid + "/_seed"
offset = int(os.environ.get("SEED_OFFSET", "0"))
patch = os.path.join(src, "patch%s.diff" % i)
demos = [d for d in glob.glob(os.path.join(src, "demo%s*" % i))]
notes = os.path.join(src, "notes%s.md" % i)
env = dict(os.environ, GOFLAGS="-mod=mod", GOPROXY="off", GOSUMDB="off", GOTOOLCHAIN="local")
wt = tempfile.mkdtemp(prefix="ingest-"); os.rmdir(wt)
subprocess.run(["git", "-C", "/repo", "worktree", "add", "-q", "--detach", wt, "HEAD"], check=True)
res = {}
def sh(cmd, cwd=wt):
    return subprocess.run(cmd, shell=True, cwd=cwd, env=env, stdout=subprocess.PIPE, stderr=subprocess.STDOUT, text=True)
def place_demo():
    placed = []
    for d in demos:
        if os.path.isdir(d):
            continue
        if d.endswith("_test.go"):
            pk = re.search(r"^package (\w+)", open(d).read(), re.M).group(1)
            sub = {"lz4_test": ".", "lz4": ".", "xxh32": "internal/xxh32", "lz4block": "internal/lz4block", "lz4stream": "internal/lz4stream", "xxh32_test": "internal/xxh32", "lz4block_test": "internal/lz4block", "lz4stream_test": "internal/lz4stream"}.get(pk, ".")
            dst = os.path.join(wt, sub, "zz_seed_" + os.path.basename(d))
            shutil.copy(d, dst); placed.append((dst, sub))
    return placed
def run_demo(placed):
    ok = True; out = ""
    for dst, sub in placed:
        names = re.findall(r"^func (Test\w+)", open(dst).read(), re.M)
        for tags in ("", "-tags noasm"):
            r = sh("go test %s -count=1 -vet=off -run '^(%s)$' ./%s" % (tags, "|".join(names), sub))
            out += r.stdout[-1200:]
            ok = ok and r.returncode == 0
    return ok, out
try:
    r = sh("git apply %s" % patch); res["applies"] = r.returncode == 0
    if not res["applies"]:
        print("PATCH DOES NOT APPLY", r.stdout); sys.exit(1)
    res["builds"] = sh("go build ./... && go build -tags noasm ./...").returncode == 0
    b = subprocess.run(["python3", "/verif/tools/baseline_off.py"], env=dict(env, VERIF_REPO=wt), stdout=subprocess.PIPE, text=True)
    res["baseline"] = b.stdout.strip().splitlines()[0] if b.stdout else "?"
    placed = place_demo()
    if placed:
        ok, out = run_demo(placed); res["demo_fails_with_patch"] = not ok; res["demo_output_with_patch"] = out[-600:]
        for dst, _ in placed: os.remove(dst)
        sh("git checkout -q -- . ")
        placed = place_demo()
        ok, out = run_demo(placed); res["demo_passes_without_patch"] = ok
        for dst, _ in placed: os.remove(dst)
    else:
        res["demo"] = "not a Go test file: run by hand (%s)" % [os.path.basename(d) for d in demos]
finally:
    subprocess.run(["git", "-C", "/repo", "worktree", "remove", "--force", wt])
print(json.dumps(res, indent=1))
dst = "/verif/seeded/%s-%d" % (pid, int(i) + offset)
os.makedirs(dst, exist_ok=True)
shutil.copy(patch, os.path.join(dst, "patch.diff"))
for d in demos:
    if os.path.isdir(d): shutil.copytree(d, os.path.join(dst, os.path.basename(d)), dirs_exist_ok=True)
    else: shutil.copy(d, os.path.join(dst, os.path.basename(d) + (".txt" if d.endswith(".go") else "")))
if os.path.exists(notes): shutil.copy(notes, os.path.join(dst, "notes.md"))
meta = dict(property=pid, id="%s-%d" % (pid, int(i) + offset), source="independent sub-agent given only the property text and a scratch worktree", confirmed=res,
            needs_to_manifest="see notes.md", ran=["git apply patch.diff in a scratch worktree of /repo HEAD", "go build ./... (also -tags noasm)", "tools/baseline_off.py (180 stable tests)", "demo test with and without the patch"])
json.dump(meta, open(os.path.join(dst, "meta.json"), "w"), indent=1)
