#!/bin/bash
# Sensitivity self-test: every reverse-fix patch under mutants/ (revfix-<PROP>-<commit>.diff) and every seeded change
# under seeded/<PROP>-<i>/patch.diff must make the property's quick check exit 1. Runs against scratch worktrees
# (tools/seedrun.py), never touches /repo. Result table: $OUT (default build/selftest.tsv).
cd "$(dirname "$0")/.."
OUT=${OUT:-build/selftest.tsv}
mkdir -p build; : > $OUT
pass=0; fail=0
run() { # patch props label [tier]
  for p in $(echo $2 | tr , ' '); do
    line=$(tools/seedrun.py $1 $p ${4:-quick} 2>&1 | grep -E "exit=" | head -1)
    rc=$(echo "$line" | sed -n 's/.* exit=\([0-9]*\) .*/\1/p')
    sig=$(echo "$line" | sed -n 's/.*---- \(.*\)/\1/p' | cut -c1-160)
    printf "%s\t%s\t%s\t%s\n" "$3" "$p" "$rc" "$sig" >> $OUT
    echo "$3 $p exit=$rc $sig"
    if [ "$rc" = "1" ]; then pass=$((pass+1)); else fail=$((fail+1)); fi
  done
}
for f in mutants/*.diff; do run $f $(basename $f | cut -d- -f2) $(basename $f .diff); done
for d in seeded/*/; do id=$(basename $d); grep -q '"superseded"' $d/meta.json && continue; also=$(python3 -c "import json,sys; print(\",\".join(json.load(open(sys.argv[1])).get(\"also\",[])))" $d/meta.json 2>/dev/null); tier=$(python3 -c "import json,sys; print(json.load(open(sys.argv[1])).get(\"tier\",\"quick\"))" $d/meta.json 2>/dev/null); run $d/patch.diff ${id%-*}${also:+,$also} $id $tier; done
echo "selftest: $pass detected, $fail missed"
