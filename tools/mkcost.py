#!/usr/bin/env python3
"""Render the cost table of DESIGN.md section 10 from the evidence files (quick: evidence/, thorough: evidence/thorough/)."""
import json, os
def k(n):
    n = int(n)
    if n >= 10**9: return "%.1f G" % (n / 1e9)
    if n >= 10**6: return "%.1f M" % (n / 1e6)
    if n >= 10**3: return "%.1f k" % (n / 1e3)
    return str(n)
print("| | quick wall | evaluations | distinct non-trivial | thorough wall | evaluations | distinct non-trivial |")
print("|---|---|---|---|---|---|---|")
tq = tt = 0
for i in range(1, 21):
    p = "C%02d" % i
    row = [p]
    for d in ("/verif/evidence/%s.json", "/verif/evidence/thorough/%s.json"):
        f = d % p
        if os.path.exists(f):
            e = json.load(open(f)); c = e["coverage"]
            row += ["%d s" % round(e["wall_s"]), k(c["evaluations"]), k(c["distinct_nontrivial"])]
            if "thorough" in d: tt += e["wall_s"]
            else: tq += e["wall_s"]
        else:
            row += ["–", "–", "–"]
    print("| " + " | ".join(row) + " |")
print("\nsum of wall times: quick %d s, thorough %d s" % (tq, tt))
