//go:build !go1.25

package inst

import (
	"testing"
	"time"
)

// BubbleSupported reports whether testing/synctest bubbles are available in this build.
const BubbleSupported = false

// RunBubble is only available when built with Go >= 1.25 (the driver builds the
// bubble-based checks with go1.26.8).
func RunBubble(t *testing.T, f func()) (verdict, detail string) {
	return "unsupported", "testing/synctest needs Go 1.25+"
}

func BubbleSleep(d time.Duration) {}

// Stragglers is only meaningful inside a bubble.
func Stragglers(pkg string) (int, string) { return 0, "" }

// Quiesce is only meaningful inside a bubble.
func Quiesce() {}
