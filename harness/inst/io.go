// Package inst holds the instrumentation: counting / failing / fragmenting I/O wrappers,
// guard-page arenas, canaries.
package inst

import (
	"errors"
	"io"
)

// ErrInjected is the error injected by failing sources and sinks.
var ErrInjected = errors.New("verif: injected I/O failure")

// wrapsEOF is an injected failure that also wraps io.ErrUnexpectedEOF (and hence is not
// *equal* to it): errors.Is(e, ErrInjected) and errors.Is(e, io.ErrUnexpectedEOF) both hold.
type wrapsEOF struct{ inner error }

func (w wrapsEOF) Error() string   { return "verif: injected I/O failure wrapping " + w.inner.Error() }
func (w wrapsEOF) Unwrap() []error { return []error{ErrInjected, w.inner} }

// ErrInjectedWrapsEOF / ErrInjectedWrapsUnexpectedEOF are injected failures that wrap the
// end-of-input sentinels: code that classifies errors with errors.Is instead of == would
// take them for the end of the input.
var (
	ErrInjectedWrapsEOF           error = wrapsEOF{io.EOF}
	ErrInjectedWrapsUnexpectedEOF error = wrapsEOF{io.ErrUnexpectedEOF}
)

// ErrSinkFull is returned by a bounded sink whose cap was reached (runaway output).
var ErrSinkFull = errors.New("verif: bounded sink is full (unbounded output?)")

// Sink is an io.Writer that records what it receives.
type Sink struct {
	Buf               []byte
	Calls             int
	FailAt            int  // 1-based index of the call that fails; 0 = never
	Sticky            bool // every call from FailAt on fails
	Partial           int  // bytes of the failing call that are still accepted
	Cap               int  // > 0: fail with ErrSinkFull once more than Cap bytes were written
	FailedAt          []int
	LenAtFirstFailure int
	Boundaries        []int  // Buf length after each successful call
	Hook              func() // called at every Write (schedule perturbation)
	FailWith          error  // the error of the failing calls (default ErrInjected)
}

func (s *Sink) Write(p []byte) (int, error) {
	if s.Hook != nil {
		s.Hook()
	}
	s.Calls++
	if s.FailAt > 0 && (s.Calls == s.FailAt || (s.Sticky && s.Calls > s.FailAt)) {
		n := 0
		if s.Calls == s.FailAt && s.Partial > 0 {
			n = s.Partial
			if n > len(p) {
				n = len(p)
			}
			s.Buf = append(s.Buf, p[:n]...)
		}
		if len(s.FailedAt) == 0 {
			s.LenAtFirstFailure = len(s.Buf)
		}
		s.FailedAt = append(s.FailedAt, s.Calls)
		if s.FailWith != nil {
			return n, s.FailWith
		}
		return n, ErrInjected
	}
	if s.Cap > 0 && len(s.Buf)+len(p) > s.Cap {
		return 0, ErrSinkFull
	}
	s.Buf = append(s.Buf, p...)
	s.Boundaries = append(s.Boundaries, len(s.Buf))
	return len(p), nil
}

// Source is an io.Reader over Data whose read pattern is driven by a schedule.
type Source struct {
	Data      []byte
	Pos       int
	Calls     int
	Chunks    []int // cyclic list of maximum chunk sizes; 0 = a (0, nil) read; empty = whatever fits
	EOFWith   bool  // return io.EOF together with the last bytes
	FailAt    int   // 1-based call index that fails with ErrInjected; 0 = never
	Sticky    bool
	Failed    int
	Hook      func()
	FailWith  error // the error returned by the failing call (default ErrInjected)
	FailData  bool  // the failing call returns data together with its error
	ZeroBurst int   // > 0: before every chunk of data, this many consecutive (0, nil) reads (legal, if discouraged, for an io.Reader)
	zeroRun   int
	burst     int
}

func (s *Source) Read(p []byte) (int, error) {
	if s.Hook != nil {
		s.Hook()
	}
	s.Calls++
	if s.FailAt > 0 && (s.Calls == s.FailAt || (s.Sticky && s.Calls > s.FailAt)) {
		s.Failed++
		e := ErrInjected
		if s.FailWith != nil {
			e = s.FailWith
		}
		if s.FailData && len(p) > 0 && s.Pos < len(s.Data) {
			// the failing call hands out data together with its error (allowed by io.Reader: the caller is to
			// process the bytes first and then consider the error)
			n := len(p)
			if rem := len(s.Data) - s.Pos; n > rem {
				n = rem
			}
			copy(p, s.Data[s.Pos:s.Pos+n])
			s.Pos += n
			return n, e
		}
		return 0, e
	}
	if len(p) == 0 {
		return 0, nil
	}
	if s.ZeroBurst > 0 && s.burst < s.ZeroBurst {
		s.burst++
		return 0, nil
	}
	s.burst = 0
	if s.Pos >= len(s.Data) {
		return 0, io.EOF
	}
	n := len(p)
	if len(s.Chunks) > 0 {
		c := s.Chunks[(s.Calls-1)%len(s.Chunks)]
		if c == 0 {
			// io.Reader allows (0, nil); never more than 3 in a row so that readers which
			// give up after many empty reads (io.ErrNoProgress) are not provoked
			s.zeroRun++
			if s.zeroRun <= 3 {
				return 0, nil
			}
			c = 1
		}
		s.zeroRun = 0
		if c < n {
			n = c
		}
	}
	if rem := len(s.Data) - s.Pos; n > rem {
		n = rem
	}
	copy(p, s.Data[s.Pos:s.Pos+n])
	s.Pos += n
	if s.EOFWith && s.Pos == len(s.Data) {
		return n, io.EOF
	}
	return n, nil
}

// Consumed is the number of source bytes handed out so far.
func (s *Source) Consumed() int { return s.Pos }

// NopCloser adds a Close that records that it was called.
type ReadCloser struct {
	io.Reader
	Closed int
}

func (r *ReadCloser) Close() error { r.Closed++; return nil }

// RepeatSource lazily yields Prefix, then Unit repeated Count times, then Suffix.
type RepeatSource struct {
	Prefix, Unit, Suffix []byte
	Count                int
	pos                  int64
	Calls                int
}

func (r *RepeatSource) total() int64 {
	return int64(len(r.Prefix)) + int64(len(r.Unit))*int64(r.Count) + int64(len(r.Suffix))
}

func (r *RepeatSource) Read(p []byte) (int, error) {
	r.Calls++
	if len(p) == 0 {
		return 0, nil
	}
	if r.pos >= r.total() {
		return 0, io.EOF
	}
	n := 0
	for n < len(p) && r.pos < r.total() {
		switch {
		case r.pos < int64(len(r.Prefix)):
			c := copy(p[n:], r.Prefix[r.pos:])
			n += c
			r.pos += int64(c)
		case r.pos < int64(len(r.Prefix))+int64(len(r.Unit))*int64(r.Count):
			off := (r.pos - int64(len(r.Prefix))) % int64(len(r.Unit))
			c := copy(p[n:], r.Unit[off:])
			n += c
			r.pos += int64(c)
		default:
			off := r.pos - int64(len(r.Prefix)) - int64(len(r.Unit))*int64(r.Count)
			c := copy(p[n:], r.Suffix[off:])
			n += c
			r.pos += int64(c)
		}
	}
	return n, nil
}

func (r *RepeatSource) Consumed() int64 { return r.pos }

// SeekSource is a Source that also implements io.Seeker (like *bytes.Reader or *os.File):
// code that takes a short cut for seekable sources is only exercised by such a source.
// Seeking beyond the end succeeds, as it does for files and bytes.Reader.
type SeekSource struct{ Source }

func (s *SeekSource) Seek(offset int64, whence int) (int64, error) {
	var base int64
	switch whence {
	case io.SeekStart:
		base = 0
	case io.SeekCurrent:
		base = int64(s.Pos)
	case io.SeekEnd:
		base = int64(len(s.Data))
	default:
		return 0, errors.New("verif: bad whence")
	}
	n := base + offset
	if n < 0 {
		return 0, errors.New("verif: negative position")
	}
	s.Pos = int(n)
	return n, nil
}
