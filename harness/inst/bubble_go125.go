//go:build go1.25

package inst

import (
	"fmt"
	"runtime/debug"
	"strings"
	"testing"
	"testing/synctest"
	"time"
)

// BubbleSupported reports whether testing/synctest bubbles are available in this build.
const BubbleSupported = true

// RunBubble runs f inside a synctest bubble. Inside a bubble time is virtual and the
// runtime detects, deterministically and at once, the situation "every goroutine of the
// bubble is durably blocked". Verdicts:
//
//	ok        f returned, and after letting every timer fire no goroutine started inside
//	          the bubble is still blocked
//	deadlock  a call made by f never returns (all goroutines blocked while f is running)
//	leak      f returned but goroutines started inside the bubble remain blocked forever
//	panic     f panicked (detail has the value and the stack)
func RunBubble(t *testing.T, f func()) (verdict, detail string) {
	defer func() {
		if r := recover(); r != nil {
			msg := fmt.Sprint(r)
			switch {
			case strings.Contains(msg, "main bubble goroutine has exited"):
				verdict, detail = "leak", msg
			case strings.Contains(msg, "deadlock"):
				verdict, detail = "deadlock", msg
			default:
				verdict, detail = "panic", msg
			}
		}
	}()
	var pv interface{}
	var stack string
	synctest.Test(t, func(*testing.T) {
		func() {
			defer func() {
				if r := recover(); r != nil {
					pv, stack = r, string(debug.Stack())
				}
			}()
			f()
		}()
		// let every pending (virtual) timer fire so that goroutines which are merely
		// sleeping in a schedule-perturbation hook can finish, then wait for quiescence
		time.Sleep(24 * time.Hour)
		synctest.Wait()
	})
	if pv != nil {
		return "panic", fmt.Sprintf("%v\n%s", pv, stack)
	}
	return "ok", ""
}

// BubbleSleep sleeps in virtual time (schedule perturbation inside a bubble).
func BubbleSleep(d time.Duration) { time.Sleep(d) }
