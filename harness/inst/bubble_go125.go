//go:build go1.25

package inst

import (
	"fmt"
	"runtime"
	"runtime/debug"
	"strings"
	"testing"
	"testing/synctest"
	"time"
)

// BubbleSupported reports whether testing/synctest bubbles are available in this build.
const BubbleSupported = true

// RunBubble runs f inside a synctest bubble. Inside a bubble time is virtual and the
// runtime detects, deterministically and at once, the situation "every goroutine of the
// bubble is durably blocked". Verdicts:
//
//	ok        f returned, and after letting every timer fire no goroutine started inside
//	          the bubble is still blocked
//	deadlock  a call made by f never returns (all goroutines blocked while f is running)
//	leak      f returned but goroutines started inside the bubble remain blocked forever
//	panic     f panicked (detail has the value and the stack)
func RunBubble(t *testing.T, f func()) (verdict, detail string) {
	defer func() {
		if r := recover(); r != nil {
			msg := fmt.Sprint(r)
			switch {
			case strings.Contains(msg, "main bubble goroutine has exited"):
				verdict, detail = "leak", msg
			case strings.Contains(msg, "deadlock"):
				verdict, detail = "deadlock", msg
			default:
				verdict, detail = "panic", msg
			}
		}
	}()
	var pv interface{}
	var stack string
	synctest.Test(t, func(*testing.T) {
		func() {
			defer func() {
				if r := recover(); r != nil {
					pv, stack = r, string(debug.Stack())
				}
			}()
			f()
		}()
		// let every pending (virtual) timer fire so that goroutines which are merely
		// sleeping in a schedule-perturbation hook can finish, then wait for quiescence
		time.Sleep(24 * time.Hour)
		synctest.Wait()
	})
	if pv != nil {
		return "panic", fmt.Sprintf("%v\n%s", pv, stack)
	}
	return "ok", ""
}

// BubbleSleep sleeps in virtual time (schedule perturbation inside a bubble).
func BubbleSleep(d time.Duration) { time.Sleep(d) }

// Stragglers must be called inside a bubble. It waits until every other goroutine of the bubble is durably blocked or
// gone (synctest.Wait) and then counts the goroutines that were started by code of the given package ("created by
// <pkg>" in their stack header) and still exist: at that point they are blocked on a channel or asleep at a hook site,
// not merely on their way out. It returns the count and the stack of the first one.
func Stragglers(pkg string) (int, string) {
	synctest.Wait()
	buf := make([]byte, 1<<20)
	buf = buf[:runtime.Stack(buf, true)]
	n, first := 0, ""
	blocks := strings.Split(string(buf), "\n\n")
	// the caller's header names its bubble: "goroutine 12 [running, synctest bubble 7]:"
	mine := ""
	if k := strings.Index(blocks[0], "synctest bubble "); k >= 0 {
		mine = blocks[0][k:]
		if e := strings.IndexAny(mine, "],:"); e >= 0 {
			mine = mine[:e]
		}
		mine += "]"
	}
	if mine == "" {
		return 0, ""
	}
	for i, g := range blocks {
		if i == 0 || !strings.Contains(strings.SplitN(g, "\n", 2)[0], mine) {
			continue // the caller itself; goroutines of other (earlier, abandoned) bubbles or outside any bubble
		}
		if strings.Contains(g, "created by "+pkg) {
			n++
			if first == "" {
				first = g
			}
		}
	}
	return n, first
}

// Quiesce must be called inside a bubble: it returns when every other goroutine of the bubble is blocked for good or gone
// (what a pipeline has read ahead by then does not depend on the scheduler any more).
func Quiesce() {
	// (goroutines asleep at a hook site count as durably blocked: let an hour of virtual time pass first)
	time.Sleep(time.Hour)
	synctest.Wait()
}
