package inst

import (
	"fmt"
	"syscall"
)

// Arena is an mmap-ed region whose first and last page are PROT_NONE. Slices placed flush
// against a guard page turn any out-of-bounds access on that side into a fault, which
// debug.SetPanicOnFault(true) turns into a recoverable panic.
type Arena struct {
	mem  []byte
	page int
	size int // usable bytes between the guards
}

func NewArena(usable int) (*Arena, error) {
	page := syscall.Getpagesize()
	n := (usable + page - 1) / page * page
	mem, err := syscall.Mmap(-1, 0, n+2*page, syscall.PROT_READ|syscall.PROT_WRITE, syscall.MAP_ANON|syscall.MAP_PRIVATE)
	if err != nil {
		return nil, fmt.Errorf("mmap: %w", err)
	}
	if err := syscall.Mprotect(mem[:page], syscall.PROT_NONE); err != nil {
		return nil, err
	}
	if err := syscall.Mprotect(mem[page+n:], syscall.PROT_NONE); err != nil {
		return nil, err
	}
	return &Arena{mem: mem, page: page, size: n}, nil
}

func (a *Arena) Size() int { return a.size }

// End returns a slice of length n and capacity n+spare whose capacity ends exactly at the
// trailing guard page. spare bytes are filled with the canary pattern.
func (a *Arena) End(n, spare int) []byte {
	total := n + spare
	if total > a.size {
		panic("arena too small")
	}
	start := a.page + a.size - total
	s := a.mem[start : start+n : start+total]
	FillCanary(s[n:total])
	return s
}

// Start returns a slice of length n (capacity n) that begins right after the leading guard page.
func (a *Arena) Start(n int) []byte {
	if n > a.size {
		panic("arena too small")
	}
	return a.mem[a.page : a.page+n : a.page+n]
}

// Region returns the whole usable region (for canary checks before/after the slice).
func (a *Arena) Region() []byte { return a.mem[a.page : a.page+a.size] }

func (a *Arena) Free() { _ = syscall.Munmap(a.mem) }

const canaryByte = 0xC7

func FillCanary(b []byte) {
	for i := range b {
		b[i] = canaryByte ^ byte(i*13)
	}
}

// CheckCanary returns the index of the first damaged canary byte, or -1.
func CheckCanary(b []byte) int {
	for i := range b {
		if b[i] != canaryByte^byte(i*13) {
			return i
		}
	}
	return -1
}
