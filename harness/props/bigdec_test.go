package props

import (
	"fmt"
	"strconv"
	"testing"

	"verifharness/gen"
	"verifharness/stat"
)

// Block-decoding cases beyond the sizes the generators draw (C03, C04, C12): literal runs of a megabyte and more
// followed by a match, length fields that add up to 2^32 and more, overlapping matches of tens of megabytes, and
// a long zero run (offset 1) followed by matches into the dictionary. They are built from a recipe (so that a replay
// file stays small) and judged by the ordinary oracle of the property.

type bigDecCase struct {
	Prop   string `json:"prop"`  // C03 | C04 | C12
	Shape  string `json:"shape"` // lit-then-match | matchlen-2^32 | litlen-2^32 | overlap | zero-run-then-dict | straddle-then-dict
	A      int    `json:"a"`
	B      int    `json:"b"`
	DstLen int    `json:"dstlen"` // 0: exactly the decoded size; < 0: decoded size + |DstLen|
}

func seqBytes(b []byte, lits []byte, off, mlen int) []byte {
	tok := byte(0)
	if len(lits) >= 15 {
		tok = 0xF0
	} else {
		tok = byte(len(lits)) << 4
	}
	ml := mlen - 4
	if mlen > 0 {
		if ml >= 15 {
			tok |= 15
		} else {
			tok |= byte(ml)
		}
	}
	b = append(b, tok)
	if len(lits) >= 15 {
		n := len(lits) - 15
		for ; n >= 255; n -= 255 {
			b = append(b, 255)
		}
		b = append(b, byte(n))
	}
	b = append(b, lits...)
	if mlen > 0 {
		b = append(b, byte(off), byte(off>>8))
		if ml >= 15 {
			n := ml - 15
			for ; n >= 255; n -= 255 {
				b = append(b, 255)
			}
			b = append(b, byte(n))
		}
	}
	return b
}

func (c bigDecCase) build() decCase {
	d := decCase{Place: "end", Origin: "big/" + c.Shape, NoArena: true, Spare: 64, Fill: 3}
	size := 0
	text := func(n int, seed uint64) []byte {
		b := make([]byte, n)
		gen.Fill(b, seed)
		return b
	}
	switch c.Shape {
	case "lit-then-match":
		// A literals, a match (offset 7, length 20), 12 closing literals
		var b []byte
		b = seqBytes(b, text(c.A, uint64(c.A)), 7, 20)
		b = seqBytes(b, text(12, 2), 0, 0)
		d.Src, size = b, c.A+20+12
	case "matchlen-2^32":
		// one literal, then a match at offset 1 whose length field has A bytes of 0xFF and a last byte of B; 5 closing literals
		b := []byte{0x1F, 'x', 1, 0}
		b = append(b, make([]byte, c.A)...)
		for i := 4; i < len(b); i++ {
			b[i] = 0xFF
		}
		b = append(b, byte(c.B))
		b = seqBytes(b, []byte("abcde"), 0, 0)
		d.Src, size = b, 0
	case "litlen-2^32":
		// a literal length field with A bytes of 0xFF and a last byte of B, followed by 64 bytes
		b := []byte{0xF0}
		b = append(b, make([]byte, c.A)...)
		for i := 1; i < len(b); i++ {
			b[i] = 0xFF
		}
		b = append(b, byte(c.B))
		b = append(b, text(64, 5)...)
		d.Src, size = b, 0
	case "overlap":
		// 10 literals, a match at offset A (<= 10) of length B, 5 closing literals
		var b []byte
		b = seqBytes(b, text(10, 7), c.A, c.B)
		b = seqBytes(b, []byte("vwxyz"), 0, 0)
		d.Src, size = b, 10+c.B+5
	case "match-2GiB":
		// one literal, a match at offset 1 of 2^31 + A bytes (a length field whose running sum has bit 31 set), 5 closing literals;
		// the destination really holds it. Outputs are compared by digest. (C12 only: the reference decoder is not run on it.)
		shift := uint(31)
		two31 := int(int64(1) << shift) // (only reached on 64-bit platforms; not a constant, so that the 32-bit build compiles)
		b := seqBytes(nil, []byte("x"), 1, two31+c.A)
		b = seqBytes(b, []byte("abcde"), 0, 0)
		d.Src, size = b, 1+two31+c.A+5
		d.HashOut, d.Spare, d.Fill = true, 64, 0
	case "dictmatch-4GiB":
		// a dictionary of 1000 bytes; 3 literals, then a match that starts 100 bytes before the end of the dictionary and is
		// 2^32 + A bytes long (A < 100: the low 32 bits of the length are smaller than what the dictionary still holds), 12 closing
		// literals; the destination really holds it (4 GiB and a little). Outputs compared by digest.
		d.Dict = text(1000, 23)
		shift := uint(32)
		two32 := int(int64(1) << shift)
		b := seqBytes(nil, []byte("xyz"), 3+100, two32+c.A)
		b = seqBytes(b, text(12, 24), 0, 0)
		d.Src, size = b, 3+two32+c.A+12
		d.HashOut, d.Spare, d.Fill = true, 64, 0
	case "dict-4GiB":
		// a dictionary of 2^32 + A bytes (zeros, then 64 bytes of pattern at its end); 3 literals, a match inside the pattern,
		// one straddling the end of the dictionary, 12 closing literals
		d.DictZeros = int64(1)<<32 + int64(c.A) - 64
		d.Dict = text(64, 21)
		var b []byte
		b = seqBytes(b, []byte("xyz"), 3+40, 16)
		b = seqBytes(b, []byte("ab"), 21+9, 30)
		b = seqBytes(b, text(12, 22), 0, 0)
		d.Src, size = b, 3+16+2+30+12
	case "straddle-then-dict":
		// 3 literals, a match that takes A bytes from the end of the dictionary and then runs on, overlapping itself, for B more
		// than its offset; then, after 3 literals, a match inside the dictionary and one straddling its end; 12 closing literals.
		// (what the copy of the dictionary part leaves in the registers must not matter to the matches that follow)
		d.Dict = text(2000, 13)
		var b []byte
		pos := 3
		off := pos + c.A
		ml := c.A + off + c.B
		b = seqBytes(b, []byte("xyz"), off, ml)
		pos += ml
		b = seqBytes(b, []byte("abc"), pos+3+700, 20)
		pos += 3 + 20
		b = seqBytes(b, []byte("de"), pos+2+9, 30)
		pos += 2 + 30
		b = seqBytes(b, text(12, 14), 0, 0)
		d.Src, size = b, pos+12
		d.NoArena = false
	case "zero-run-then-dict":
		// two zero bytes, a run of A more at offset 1, then a match inside the dictionary, one straddling its end, B closing literals
		d.Dict = text(1000, 9)
		var b []byte
		b = seqBytes(b, []byte{0, 0}, 1, c.A)
		pos := 2 + c.A
		b = seqBytes(b, []byte("abc"), pos+3+500, 50)
		pos += 3 + 50
		b = seqBytes(b, []byte("de"), pos+2+10, 40)
		pos += 2 + 40
		b = seqBytes(b, text(c.B, 11), 0, 0)
		d.Src, size = b, pos+c.B
		d.NoArena = size > 1<<20
	}
	switch {
	case c.DstLen == 0:
		d.DstLen = size
	case c.DstLen < 0:
		d.DstLen = size - c.DstLen
	default:
		d.DstLen = c.DstLen
	}
	return d
}

func runBigDec(c bigDecCase, rec *stat.Rec) *stat.Failure {
	d := c.build()
	rec.Class("big/" + c.Shape)
	var f *stat.Failure
	switch c.Prop {
	case "C03":
		f = runC03(d, rec)
	case "C04":
		f = runC04(d, rec)
	case "C12":
		f = runC12(d, rec)
	}
	if f != nil {
		f.Msg = fmt.Sprintf("big case %s a=%d b=%d: %s", c.Shape, c.A, c.B, f.Msg)
	}
	return f
}

func init() {
	register("C03", "C03/bigdecode", runBigDec)
	register("C04", "C04/bigdecode", runBigDec)
	register("C12", "C12/bigdecode", runBigDec)
}

func bigDecCases(prop string) []bigDecCase {
	var cs []bigDecCase
	for _, l := range []int{1<<20 - 1, 1 << 20, 1<<20 + 4097, 3 << 20} {
		cs = append(cs, bigDecCase{Prop: prop, Shape: "lit-then-match", A: l}, bigDecCase{Prop: prop, Shape: "lit-then-match", A: l, DstLen: -100})
	}
	// 255 x 16843009 = 2^32 - 1
	for _, dl := range []int{38, 4096, 1 << 20} {
		cs = append(cs, bigDecCase{Prop: prop, Shape: "matchlen-2^32", A: 16843009, B: 0, DstLen: dl}, bigDecCase{Prop: prop, Shape: "matchlen-2^32", A: 16843009, B: 7, DstLen: dl})
		cs = append(cs, bigDecCase{Prop: prop, Shape: "litlen-2^32", A: 16843009, B: 0, DstLen: dl}, bigDecCase{Prop: prop, Shape: "litlen-2^32", A: 16843009, B: 30, DstLen: dl})
	}
	over := []int{26 << 20}
	if thorough() {
		over = append(over, 70<<20+3)
	}
	for _, n := range over {
		for _, off := range []int{3, 7, 10} {
			cs = append(cs, bigDecCase{Prop: prop, Shape: "overlap", A: off, B: n})
		}
	}
	if prop == "C12" && strconv.IntSize == 64 {
		for _, a := range []int{4096, 70000} {
			cs = append(cs, bigDecCase{Prop: prop, Shape: "dict-4GiB", A: a}, bigDecCase{Prop: prop, Shape: "dict-4GiB", A: a, DstLen: -5})
		}
		if thorough() {
			cs = append(cs, bigDecCase{Prop: prop, Shape: "match-2GiB", A: 100}, bigDecCase{Prop: prop, Shape: "match-2GiB", A: 1 << 30},
				bigDecCase{Prop: prop, Shape: "dictmatch-4GiB", A: 50})
		}
	}
	for _, fromDict := range []int{16, 200, 255, 256, 257, 300, 1024, 1990} {
		for _, extra := range []int{1, 40, 3000} {
			cs = append(cs, bigDecCase{Prop: prop, Shape: "straddle-then-dict", A: fromDict, B: extra}, bigDecCase{Prop: prop, Shape: "straddle-then-dict", A: fromDict, B: extra, DstLen: -33})
		}
	}
	for _, run := range []int{4094, 4095, 4096, 5000, 70000} {
		for _, tail := range []int{5, 20, 40} {
			cs = append(cs, bigDecCase{Prop: prop, Shape: "zero-run-then-dict", A: run, B: tail}, bigDecCase{Prop: prop, Shape: "zero-run-then-dict", A: run, B: tail, DstLen: -17})
		}
	}
	return cs
}

func testBigDec(t *testing.T, prop string) {
	for i, c := range bigDecCases(prop) {
		if i%nshards != shard {
			continue
		}
		pinned(t, prop, prop+"/bigdecode", c, runBigDec)
	}
}

func TestC03Big(t *testing.T) { testBigDec(t, "C03") }
func TestC04Big(t *testing.T) { testBigDec(t, "C04") }
func TestC12Big(t *testing.T) { testBigDec(t, "C12") }

// Tail shapes (C03, C04, C12): the last sequences of a block enumerated systematically — literal length 0..18, match nibble
// {0,1,4,13,14,15}, offsets {1,4,7,8,16,18,40}, the block ending right after the match / with a 00 token / with five literals,
// the destination exact or with 1, 16, 32, 33, 48 bytes of room (alternately as length and as spare capacity). This is where the
// decoders decide between their wide-copy shortcuts and the careful paths, by comparisons that are one byte apart.
func tailCases() []decCase {
	text := func(n int, seed uint64) []byte {
		b := make([]byte, n)
		gen.Fill(b, seed)
		return b
	}
	var cs []decCase
	i := 0
	for l := 0; l <= 18; l++ {
		for _, m := range []int{0, 1, 4, 13, 14, 15} {
			for _, off := range []int{1, 4, 7, 8, 16, 18, 40} {
				for tail := 0; tail < 3; tail++ {
					for _, room := range []int{0, 1, 16, 32, 33, 48} {
						i++
						b := seqBytes(nil, text(40, 3), 5, 10)
						b = seqBytes(b, text(l, uint64(l)+7), off, m+4)
						size := 50 + l + m + 4
						switch tail {
						case 1:
							b = append(b, 0x00)
						case 2:
							b = seqBytes(b, []byte("vwxyz"), 0, 0)
							size += 5
						}
						d := decCase{Src: b, Place: "end", Origin: "tails", Fill: i % 3}
						if i%2 == 0 {
							d.DstLen, d.Spare = size+room, 0
						} else {
							d.DstLen, d.Spare = size, room
						}
						cs = append(cs, d)
					}
				}
			}
		}
	}
	return cs
}

func testTails(t *testing.T, prop string, run func(decCase, *stat.Rec) *stat.Failure) {
	rec := stat.For(prop)
	for i, c := range tailCases() {
		if i%nshards != shard {
			continue
		}
		pinned(t, prop, prop+"/decode", c, run)
	}
	rec.Class("tails/enumerated")
}

func TestC03Tails(t *testing.T) { testTails(t, "C03", runC03) }
func TestC04Tails(t *testing.T) { testTails(t, "C04", runC04) }
func TestC12Tails(t *testing.T) { testTails(t, "C12", runC12) }
