package props

import (
	"bytes"
	"errors"
	"fmt"
	"io"
	"runtime/debug"
	"testing"

	lz4 "github.com/pierrec/lz4/v4"
	"pgregory.net/rapid"

	"verifharness/gen"
	"verifharness/inst"
	"verifharness/ref"
	"verifharness/stat"
)

// C15: I/O failures are reported faithfully and read fragmentation is irrelevant.

// ---------------------------------------------------------------- writer side

type c15WCase struct {
	Opts    wopts    `json:"opts"`
	Data    gen.Data `json:"data"`
	Del     delivery `json:"delivery"`
	FailAt  int      `json:"failat"`
	Sticky  bool     `json:"sticky"`
	Partial int      `json:"partial"`
}

type c15WRef struct {
	data, out  []byte
	calls      int
	boundaries []int
	fr         *ref.Frame
}

func c15FaultFree(c c15WCase) (*c15WRef, *stat.Failure) {
	data := c.Data.Build()
	var sink inst.Sink
	w := lz4.NewWriter(&sink)
	if err := w.Apply(c.Opts.options(len(data), nil)...); err != nil {
		return nil, stat.Failf("C15/writer/apply-fails", "%v", err)
	}
	if where, err := deliver(w, data, c.Del); err != nil {
		return nil, stat.Failf("C15/writer/fault-free-run-fails", "%s: %v", where, err)
	}
	if err := w.Close(); err != nil {
		return nil, stat.Failf("C15/writer/fault-free-close-fails", "%v", err)
	}
	return &c15WRef{data: data, out: sink.Buf, calls: sink.Calls, boundaries: sink.Boundaries, fr: ref.ParseFrame(sink.Buf, ref.Walk)}, nil
}

func runC15WWith(c c15WCase, base *c15WRef, rec *stat.Rec) *stat.Failure {
	rec.Eval()
	sink := &inst.Sink{FailAt: c.FailAt, Sticky: c.Sticky, Partial: c.Partial}
	w := lz4.NewWriter(sink)
	if err := w.Apply(c.Opts.options(len(base.data), nil)...); err != nil {
		return stat.Failf("C15/writer/apply-fails", "%v", err)
	}
	var reported error
	where, err := deliver(w, base.data, c.Del)
	if err != nil {
		reported = err
	}
	cerr := w.Close()
	if reported == nil && cerr != nil {
		reported, where = cerr, "Close"
	}
	conc := "seq"
	if concOf(c.Opts.Conc) > 1 {
		conc = "conc"
	}
	desc := fmt.Sprintf("%s; delivery %s (%d flushes); sink call %d of %d fails (sticky=%v partial=%d)", c.Opts, c.Del.Mode, c.Del.nFlush(), c.FailAt, base.calls, c.Sticky, c.Partial)
	if len(sink.FailedAt) == 0 {
		// the failing call was never reached (fewer calls than in the fault-free run): nothing to report
		rec.Class("writer/fault-not-reached")
		return nil
	}
	// which field did the failing call carry?
	field := "header"
	if c.FailAt-2 >= 0 && c.FailAt-2 < len(base.boundaries) {
		field, _ = fieldAt(base.fr, base.boundaries[c.FailAt-2])
	}
	if reported == nil {
		return stat.Failf("C15/writer/sink-failure-not-reported/"+conc+"/"+field, "%s: the sink failed at call(s) %v but Write/ReadFrom/Flush/Close all returned nil", desc, sink.FailedAt)
	}
	if !errors.Is(reported, inst.ErrInjected) {
		return stat.Failf("C15/writer/reported-error-is-not-the-sink-error/"+conc, "%s: %s returned %v", desc, where, reported)
	}
	atFault := sink.Buf[:sink.LenAtFirstFailure]
	if !bytes.HasPrefix(base.out, atFault) {
		return stat.Failf("C15/writer/sink-content-at-the-failure-is-not-a-prefix/"+conc, "%s: %d bytes in the sink at the time of the failure, first difference with the fault-free output at %d", desc, len(atFault), firstDiff(atFault, base.out))
	}
	if len(sink.Buf) > sink.LenAtFirstFailure {
		rec.Class("writer/writes-after-reported-failure(not-judged)")
	}
	rec.Class("writer/failing-call-carried/"+field, "writer/"+conc, "writer/reported-by/"+firstWords(where, 1))
	if c.FailAt > 1 {
		rec.NonTrivial(stat.FP("w", c.Opts.String(), base.data, fmt.Sprint(c.Del), c.FailAt, c.Sticky, c.Partial))
		rec.Class("writer/nontrivial")
	}
	return nil
}

func runC15W(c c15WCase, rec *stat.Rec) *stat.Failure {
	base, f := c15FaultFree(c)
	if f != nil {
		return f
	}
	return runC15WWith(c, base, rec)
}

// ---------------------------------------------------------------- reader side

type c15RCase struct {
	Opts     wopts    `json:"opts"`
	Data     gen.Data `json:"data"`
	R        rcfg     `json:"reader"`
	FailAt   int      `json:"failat"` // 0: no fault (fragmentation-only case)
	Sticky   bool     `json:"sticky"`
	FailKind int      `json:"failkind,omitempty"` // 0 plain error, 1 wraps io.EOF, 2 wraps io.ErrUnexpectedEOF, 4 / 5 as 0 / 2 with the data of the failing call
	Skip     []int    `json:"skip,omitempty"`     // skippable frames (payload lengths) in front of the frame
	OnlySkip bool     `json:"onlyskip,omitempty"` // the source holds the skippable frames only, no data frame
	PrevEOF  bool     `json:"preveof,omitempty"`  // the same Reader has decoded an earlier stream whose source returned its last bytes together with io.EOF
}

func runC15RWith(c c15RCase, z, data []byte, rec *stat.Rec) *stat.Failure {
	rec.Eval()
	src := &inst.Source{Data: z, Chunks: c.R.Src, EOFWith: c.R.EOFWith, ZeroBurst: c.R.ZeroBurst, FailAt: c.FailAt, Sticky: c.Sticky, FailWith: failErr(c.FailKind), FailData: failWithData(c.FailKind)}
	rd := lz4.NewReader(src)
	if err := rd.Apply(lz4.ConcurrencyOption(c.R.Conc)); err != nil {
		return stat.Failf("C15/reader/apply-fails", "%v", err)
	}
	if c.PrevEOF {
		// an earlier stream on the same Reader: whatever the object noted about how *that* source ended must be gone after Reset
		rd.Reset(&inst.Source{Data: c15PrevFrame(), Chunks: []int{7, 4096}, EOFWith: true})
		scratch := make([]byte, 1<<16)
		for {
			if _, e := rd.Read(scratch); e != nil {
				break
			}
		}
		rd.Reset(src)
		rec.Class("reader/reused-after-a-source-that-ended-with-data+EOF")
	}
	var out []byte
	var err error
	afterEOF := false // a Read after the reported failure returned io.EOF
	if c.R.WriteTo {
		var sink inst.Sink
		_, err = rd.WriteTo(&sink)
		out = sink.Buf
	} else {
		bp := readBufPool.Get().(*[]byte)
		if len(*bp) < 1<<20 {
			*bp = make([]byte, 1<<20)
		}
		buf := *bp
		for i := 0; i < 1<<24; i++ {
			sz := 4096
			if len(c.R.Sizes) > 0 {
				sz = c.R.Sizes[i%len(c.R.Sizes)]
			}
			if sz > len(buf) {
				sz = len(buf)
			}
			var n int
			n, err = rd.Read(buf[:sz])
			out = append(out, buf[:n]...)
			if err != nil {
				if err != io.EOF {
					// a caller that tries again after the failure (bufio does, a retry loop does): whatever else is delivered
					// must still be content, and the stream must not come to a clean end short of it
					for k := 0; k < 3; k++ {
						n2, err2 := rd.Read(buf[:sz])
						out = append(out, buf[:n2]...)
						if err2 == io.EOF {
							afterEOF = true
						}
						if err2 != nil && n2 == 0 {
							break
						}
					}
				}
				break
			}
		}
		readBufPool.Put(bp)
		if err == io.EOF {
			err = nil
		}
	}
	conc := "seq"
	if concOf(c.R.Conc) > 1 {
		conc = "conc"
	}
	desc := fmt.Sprintf("%s, frame of %d bytes; reader %+v; source call %d fails (sticky=%v), %d calls made", c.Opts, len(z), c.R, c.FailAt, c.Sticky, src.Calls)
	if src.Failed == 0 && c.OnlySkip {
		// no data frame at all: whatever the Reader says about such a source (0 bytes and a clean end, or io.EOF from
		// WriteTo), it must say the same however the source fragments its reads
		plain := c
		plain.R.Src, plain.R.EOFWith, plain.R.Seeker, plain.R.ZeroBurst, plain.FailAt = nil, false, false, 0, 0
		bres := readAll(z, plain.R, nil)
		var got error = err
		if len(out) != len(bres.Out) || errClass(got) != errClass(bres.Err) {
			return stat.Failf("C15/reader/skippable-only-source-depends-on-fragmentation", "%s: %d bytes, %v; with a plain source: %d bytes, %v", desc, len(out), got, len(bres.Out), bres.Err)
		}
		rec.Class("reader/fault-free(fragmentation)")
		rec.NonTrivial(stat.FP("skiponly", z, fmt.Sprint(c.R)))
		return nil
	}
	if src.Failed == 0 {
		// no fault hit: the fragmentation must be irrelevant
		if err != nil {
			return stat.Failf("C15/reader/fragmented-source-breaks-decoding/"+errClass(err), "%s: %v after %d bytes", desc, err, len(out))
		}
		if !bytes.Equal(out, data) {
			return stat.Failf("C15/reader/fragmented-source-changes-output", "%s: %d bytes out, %d expected, first difference at %d", desc, len(out), len(data), firstDiff(out, data))
		}
		rec.Class("reader/fault-free(fragmentation)")
		if len(c.R.Src) > 0 {
			rec.NonTrivial(stat.FP("frag", z, fmt.Sprint(c.R)))
		}
		return nil
	}
	if err == nil {
		return stat.Failf("C15/reader/source-failure-reported-as-clean-end-of-stream/"+conc, "%s: reader finished without error after %d of %d bytes", desc, len(out), len(data))
	}
	if want := failWant(c.FailKind); !errors.Is(err, want) {
		return stat.Failf("C15/reader/reported-error-is-not-the-source-error/"+conc+"/"+errClass(err), "%s: the source failed with %v, the reader returned %v", desc, want, err)
	}
	if afterEOF && len(out) < len(data) {
		return stat.Failf("C15/reader/clean-end-of-stream-after-the-reported-failure/"+conc, "%s: the failure was returned (%v), the Reads after it ended with io.EOF after %d of %d bytes", desc, err, len(out), len(data))
	}
	if !bytes.HasPrefix(data, out) {
		return stat.Failf("C15/reader/delivered-bytes-not-a-prefix/"+conc, "%s: %d bytes delivered, first difference at %d", desc, len(out), firstDiff(out, data))
	}
	rec.Class("reader/"+conc, "reader/fault-reported")
	if failWithData(c.FailKind) {
		rec.Class("reader/fault-reported(error-returned-with-data)")
	}
	if c.FailAt > 2 {
		rec.NonTrivial(stat.FP("r", z, fmt.Sprint(c.R), c.FailAt, c.Sticky))
		rec.Class("reader/nontrivial")
	}
	return nil
}

var c15Prev []byte

// c15PrevFrame: a small valid frame (no bytes after it) for the earlier life of a reused Reader.
func c15PrevFrame() []byte {
	if c15Prev == nil {
		var sink inst.Sink
		w := lz4.NewWriter(&sink)
		_ = w.Apply(lz4.BlockSizeOption(lz4.Block64Kb))
		_, _ = w.Write(opData(70000, 5))
		_ = w.Close()
		c15Prev = sink.Buf
	}
	return c15Prev
}

// c15Stream builds the compressed source of a reader-side case: skippable frames, then the frame (or nothing).
func c15Stream(c c15RCase) ([]byte, []byte, *stat.Failure) {
	data := c.Data.Build()
	var z []byte
	for i, n := range c.Skip {
		z = append(z, byte(0x50+(i*3+n)%16), 0x2A, 0x4D, 0x18, byte(n), byte(n>>8), byte(n>>16), byte(n>>24))
		junk := make([]byte, n)
		gen.Fill(junk, uint64(n)+1)
		z = append(z, junk...)
	}
	if c.OnlySkip {
		return z, nil, nil
	}
	fz, f := emit(c.Opts, data, "write", delivery{Mode: "write"}, nil)
	if f != nil {
		return nil, nil, stat.Failf("C15/reader/cannot-build-frame", "%s", f.Msg)
	}
	return append(z, fz...), data, nil
}

func runC15R(c c15RCase, rec *stat.Rec) *stat.Failure {
	z, data, f := c15Stream(c)
	if f != nil {
		return f
	}
	return runC15RWith(c, z, data, rec)
}

// ---------------------------------------------------------------- Writer.ReadFrom with a failing source

type c15SCase struct {
	Opts     wopts  `json:"opts"`
	N        int    `json:"n"`
	Seed     uint64 `json:"seed"`
	Chunks   []int  `json:"chunks,omitempty"`
	FailAt   int    `json:"failat"`
	FailKind int    `json:"failkind"` // as C18: 0 plain, 1 wraps io.EOF, 2 wraps io.ErrUnexpectedEOF, 3 io.ErrUnexpectedEOF itself, 4/5 as 0/2 with data
}

func runC15S(c c15SCase, rec *stat.Rec) *stat.Failure {
	data := opData(c.N, c.Seed)
	src := &inst.Source{Data: data, Chunks: c.Chunks, FailAt: c.FailAt, FailWith: failErr(c.FailKind), FailData: failWithData(c.FailKind)}
	var sink inst.Sink
	w := lz4.NewWriter(&sink)
	if err := w.Apply(c.Opts.options(len(data), nil)...); err != nil {
		return stat.Failf("C15/writer/apply-fails", "%v", err)
	}
	rec.Eval()
	n, err := w.ReadFrom(src)
	cerr := w.Close()
	if src.Failed == 0 {
		rec.Class("readfrom-source/fault-index-beyond-the-calls-made")
		if err != nil || cerr != nil || n != int64(len(data)) {
			return stat.Failf("C15/readfrom/fault-free-run-fails", "%s, %d bytes: ReadFrom=(%d, %v) Close=%v", c.Opts, len(data), n, err, cerr)
		}
		return nil
	}
	want := failWant(c.FailKind)
	rec.Class("readfrom-source/failed", fmt.Sprintf("readfrom-source/kind-%d", c.FailKind))
	if !errors.Is(err, want) {
		return stat.Failf(fmt.Sprintf("C15/readfrom/source-failure-not-returned/failkind=%d", c.FailKind), "%s, %d bytes, source chunks %v: the source failed at call %d with %v (with data: %v); ReadFrom returned (%d, %v), Close %v, %d bytes in the sink",
			c.Opts, len(data), c.Chunks, c.FailAt, want, failWithData(c.FailKind), n, err, cerr, len(sink.Buf))
	}
	rec.NonTrivial(stat.FP("rfsrc", fmt.Sprint(c)))
	return nil
}

func TestC15ReadFromSource(t *testing.T) {
	rec := stat.For("C15")
	rec.SetRule(c15Rule)
	i := 0
	for _, conc := range []int{1, 2} {
		for _, legacy := range []bool{false, true} {
			for _, n := range []int{0, 100, 65536, 200000} {
				for kind := 0; kind <= 9; kind++ {
					for failAt := 1; failAt <= 6; failAt++ {
						i++
						if i%nshards != shard {
							continue
						}
						c := c15SCase{Opts: wopts{BS: 4, Conc: conc, Legacy: legacy, ContentSum: true}, N: n, Seed: uint64(n + kind), Chunks: []int{65536, 4096, 65536}, FailAt: failAt, FailKind: kind}
						pinned(t, "C15", "C15/readfrom-source", c, runC15S)
					}
				}
			}
		}
	}
}

func init() {
	register("C15", "C15/readfrom-source", runC15S)
	register("C15", "C15/writer", runC15W)
	register("C15", "C15/reader", runC15R)
}

// faultIndices: every index when n <= all, else the first 40, the last 40 and 120 stratified ones.
func faultIndices(n, all int, t *rapid.T) []int {
	var ks []int
	if n <= all {
		for k := 1; k <= n; k++ {
			ks = append(ks, k)
		}
		return ks
	}
	seen := map[int]bool{}
	add := func(k int) {
		if k >= 1 && k <= n && !seen[k] {
			seen[k] = true
			ks = append(ks, k)
		}
	}
	for k := 1; k <= 40; k++ {
		add(k)
		add(n - k + 1)
	}
	for i := 0; i < 120; i++ {
		add(rapid.IntRange(1, n).Draw(t, "k"))
	}
	return ks
}

const c15Rule = "fault-index enumeration: for each rapid-drawn (input, options incl. legacy / block checksum / size / level, concurrency 1/2/4, delivery = Write partition with Flush marks or " +
	"ReadFrom) a fault-free run counts the N calls on the sink; then for every k <= N (all k when N <= 300, else first/last 40 + 120 drawn) the k-th call fails, in the variants transient / " +
	"persistent x with / without a partial write. Same on the read side: the k-th call on the source fails (transient / persistent), for Read size sequences and WriteTo, concurrency 1/2/4, " +
	"under drawn source fragmentation; plus fault-free decodes under fragmentation patterns (single bytes, data returned together with io.EOF, interspersed (0, nil) reads). Oracle: writer: some " +
	"call from the failing one up to Close returns an error e with errors.Is(e, injected) and the sink content at the time of the failure is a prefix of the fault-free output; reader: the " +
	"returned error satisfies errors.Is(., injected), never nil / io.EOF, and the delivered bytes are a prefix of the content; fragmentation: identical bytes and clean end of stream. " +
	"Non-trivial = k falls after the header; distinct by (configuration, k, variant)."

func TestC15Writer(t *testing.T) {
	rec := stat.For("C15")
	rec.SetRule(c15Rule)
	rec.Require("writer/nontrivial", "writer/conc", "writer/seq", "writer/failing-call-carried/bsize", "writer/failing-call-carried/bdata", "writer/failing-call-carried/endmark", "writer/failing-call-carried/bsum", "writer/failing-call-carried/lbsize")
	n := pick(500, 8000)
	n = (n + nshards - 1) / nshards
	setRapid(n, "C15/writer")
	sampled := 0
	rapid.Check(t, func(rt *rapid.T) {
		var c c15WCase
		c.Opts = drawWopts(rt, false, 2)
		c.Opts.Conc = rapid.SampledFrom([]int{1, 1, 2, 4}).Draw(rt, "wconc")
		bs := c.Opts.blockSize()
		nbytes := sizeAround(rt, 65536, 400<<10)
		if c.Opts.Level != 0 && nbytes > 150<<10 {
			nbytes = 150 << 10
		}
		c.Data = drawFrameData(rt, nbytes)
		c.Del = drawDelivery(rt, nbytes, bs, true, true)
		base, f := c15FaultFree(c)
		if f != nil {
			judge(rt, "C15", "C15/writer", c, f)
			return
		}
		ks := faultIndices(base.calls, 300, rt)
		for _, k := range ks {
			for v := 0; v < 5; v++ {
				cc := c
				cc.FailAt, cc.Sticky = k, v&1 == 1
				if v&2 != 0 {
					cc.Partial = 1 + k%3
				}
				if v == 4 {
					// the failing call accepts everything and still reports an error: (len(p), err)
					cc.Partial = 1 << 30
				}
				journal("C15", "C15/writer", cc)
				judge(rt, "C15", "C15/writer", cc, safelyF(func() *stat.Failure { return runC15WWith(cc, base, rec) }))
			}
		}
		if sampled < 8 {
			sampled++
			rec.Sample(map[string]interface{}{"side": "writer", "opts": c.Opts.String(), "len": nbytes, "delivery": c.Del, "sink calls in the fault-free run": base.calls, "fault indices tried": len(ks), "variants": 5})
		}
	})
}

func safelyF(f func() *stat.Failure) (res *stat.Failure) {
	defer func() {
		if r := recover(); r != nil {
			res = panicFailure("C15", r, debug.Stack())
		}
	}()
	return f()
}

// TestC15ReaderLegacyBig: a legacy stream whose first block is incompressible (stored in more than 8 MiB, which the Reader
// takes into a buffer of its own) followed by a short block: every source call fails in turn, in every failure kind.
func TestC15ReaderLegacyBig(t *testing.T) {
	rec := stat.For("C15")
	rec.SetRule(c15Rule)
	if shard != nshards-1 {
		return
	}
	base := c15RCase{Opts: wopts{BS: 7, Legacy: true, Conc: 1}, Data: gen.Data{Segs: []gen.Seg{{K: "rand", N: 8 << 20, S: 41}, {K: "text", N: 1000, S: 42, P: 3}}}}
	z, data, f := c15Stream(base)
	if f != nil {
		t.Fatalf("cannot build the legacy stream: %s", f.Msg)
	}
	for _, r := range []rcfg{{Conc: 1, Sizes: []int{65536}}, {Conc: 1, WriteTo: true}, {Conc: 1, Sizes: []int{64 << 20}}, {Conc: 4, Sizes: []int{4095}, Src: []int{1 << 20}}} {
		probe := &inst.Source{Data: z, Chunks: r.Src}
		prd := lz4.NewReader(probe)
		_ = prd.Apply(lz4.ConcurrencyOption(r.Conc))
		_, _ = io.Copy(io.Discard, struct{ io.Reader }{prd})
		for k := 1; k <= probe.Calls; k++ {
			for kind := 0; kind <= 9; kind++ {
				c := base
				c.R, c.FailAt, c.FailKind, c.Sticky = r, k, kind, (k+kind)%2 == 0
				journal("C15", "C15/reader", c)
				judge(t, "C15", "C15/reader", c, safelyF(func() *stat.Failure { return runC15RWith(c, z, data, rec) }))
			}
		}
		rec.Class("reader/legacy-block-stored-in-more-than-8MiB")
	}
}

// TestC15WriterLegacyBig: the Writer side of the same regime - a legacy stream of an incompressible 8 MiB block (the retry into a
// larger buffer) and a short one, sequential and concurrent, through Write and ReadFrom: every sink call fails in turn, in every variant.
func TestC15WriterLegacyBig(t *testing.T) {
	rec := stat.For("C15")
	rec.SetRule(c15Rule)
	if shard != nshards-1 {
		return
	}
	data := gen.Data{Segs: []gen.Seg{{K: "rand", N: 8 << 20, S: 43}, {K: "text", N: 70000, S: 44, P: 3}}}
	for _, conc := range []int{1, 2} {
		for _, del := range []delivery{{Mode: "write"}, {Mode: "write", Chunks: []int{3 << 20, 5<<20 + 1}, Flush: []bool{false, true}}, {Mode: "readfrom", Src: []int{1 << 20}}} {
			c := c15WCase{Opts: wopts{BS: 7, Legacy: true, Conc: conc}, Data: data, Del: del}
			base, f := c15FaultFree(c)
			if f != nil {
				t.Fatalf("fault-free run fails: %s", f.Msg)
			}
			for k := 1; k <= base.calls; k++ {
				for v := 0; v < 5; v++ {
					cc := c
					cc.FailAt, cc.Sticky = k, v&1 == 1
					if v&2 != 0 {
						cc.Partial = 1 + k%3
					}
					if v == 4 {
						cc.Partial = 1 << 30
					}
					journal("C15", "C15/writer", cc)
					judge(t, "C15", "C15/writer", cc, safelyF(func() *stat.Failure { return runC15WWith(cc, base, rec) }))
				}
			}
			rec.Class("writer/legacy-incompressible-8MiB-block")
		}
	}
}

func TestC15Reader(t *testing.T) {
	rec := stat.For("C15")
	rec.SetRule(c15Rule)
	rec.Require("reader/nontrivial", "reader/conc", "reader/seq", "reader/fault-free(fragmentation)", "reader/fault-free(data-with-EOF)", "reader/fault-free(150-empty-reads-in-a-row)", "reader/skippable-frames-only", "reader/reused-after-a-source-that-ended-with-data+EOF")
	n := pick(500, 8000)
	n = (n + nshards - 1) / nshards
	setRapid(n, "C15/reader")
	sampled := 0
	rapid.Check(t, func(rt *rapid.T) {
		var c c15RCase
		c.Opts = drawWopts(rt, false, 2)
		c.Opts.Conc = 1
		nbytes := sizeAround(rt, 65536, 400<<10)
		c.Data = drawFrameData(rt, nbytes)
		c.R = drawRcfg(rt, 65536)
		c.R.Conc = rapid.SampledFrom([]int{1, 1, 2, 4}).Draw(rt, "rconc2")
		if len(c.R.Src) == 0 && rapid.Bool().Draw(rt, "frag") {
			c.R.Src = rapid.SampledFrom([][]int{{1}, {0, 1}, {3, 0, 0, 5}, {4095}, {65536, 1}}).Draw(rt, "fragkind")
		}
		if rapid.IntRange(0, 3).Draw(rt, "skip?") == 0 {
			c.Skip = rapid.SliceOfN(rapid.SampledFrom([]int{0, 1, 3, 4, 200, 70000}), 1, 2).Draw(rt, "skip")
			c.OnlySkip = rapid.IntRange(0, 2).Draw(rt, "onlyskip") == 0
		}
		z, data, f := c15Stream(c)
		if f != nil {
			return
		}
		if len(c.Skip) > 0 {
			rec.Class("reader/skippable-frames-in-front")
		}
		if c.OnlySkip {
			rec.Class("reader/skippable-frames-only")
		}
		// fault-free run under this fragmentation: counts the source calls
		probe := &inst.Source{Data: z, Chunks: c.R.Src, EOFWith: c.R.EOFWith}
		prd := lz4.NewReader(probe)
		_ = prd.Apply(lz4.ConcurrencyOption(c.R.Conc))
		_, _ = io.Copy(io.Discard, struct{ io.Reader }{prd})
		cc := c
		cc.FailAt = 0
		judge(rt, "C15", "C15/reader", cc, safelyF(func() *stat.Failure { return runC15RWith(cc, z, data, rec) }))
		// the fragmentation patterns the statement names, each fault-free: single bytes, data returned together with
		// io.EOF (whole, halves, single bytes), interspersed zero-length reads
		for _, fr := range []struct {
			src   []int
			eof   bool
			burst int
		}{{[]int{1}, false, 0}, {[]int{1}, true, 0}, {nil, true, 0}, {[]int{len(z)/2 + 1}, true, 0}, {[]int{0, 7, 0, 0, 1}, true, 0}, {[]int{0, 3}, false, 0},
			// long stalls: 150 empty reads in a row before every chunk of data
			{[]int{4096}, false, 150}, {nil, true, 150}} {
			cc.R.Src, cc.R.EOFWith, cc.R.ZeroBurst = fr.src, fr.eof, fr.burst
			cc.PrevEOF = fr.burst == 0 && len(fr.src)%2 == 1
			judge(rt, "C15", "C15/reader", cc, safelyF(func() *stat.Failure { return runC15RWith(cc, z, data, rec) }))
			if fr.eof {
				rec.Class("reader/fault-free(data-with-EOF)")
			}
			if fr.burst > 0 {
				rec.Class("reader/fault-free(150-empty-reads-in-a-row)")
			}
		}
		ks := faultIndices(probe.Calls, 300, rt)
		for _, k := range ks {
			for v := 0; v < 5; v++ {
				cc := c
				cc.FailAt, cc.Sticky = k, v == 1
				cc.PrevEOF = (k+v)%4 == 0
				if v == 2 {
					cc.FailKind = 1 + k%2 // an injected error that wraps io.EOF / io.ErrUnexpectedEOF
				}
				if v == 3 {
					cc.FailKind = 4 + k%2 // the failing call returns its data together with the error
					cc.Sticky = k%3 == 0
				}
				if v == 4 {
					cc.FailKind = 6 + k%4 // a sentinel error of the standard library, as a real source returns it
					cc.Sticky = k%2 == 0
				}
				journal("C15", "C15/reader", cc)
				judge(rt, "C15", "C15/reader", cc, safelyF(func() *stat.Failure { return runC15RWith(cc, z, data, rec) }))
			}
		}
		if sampled < 8 {
			sampled++
			rec.Sample(map[string]interface{}{"side": "reader", "opts": c.Opts.String(), "frame": len(z), "reader": c.R, "source calls in the fault-free run": probe.Calls, "fault indices tried": len(ks), "variants": 2})
		}
	})
}
