package props

import (
	"fmt"
	"strconv"
	"syscall"
	"testing"

	lz4 "github.com/pierrec/lz4/v4"
	"pgregory.net/rapid"

	"verifharness/gen"
	"verifharness/ref"
	"verifharness/stat"
)

// ---------------------------------------------------------------- C13 one-shot

type c13OneShot struct {
	Data gen.Data `json:"data"`
	Off  int      `json:"off"` // start offset inside a larger buffer (alignment)
}

func runC13OneShot(c c13OneShot, rec *stat.Rec) *stat.Failure {
	b := c.Data.Build()
	buf := make([]byte, len(b)+c.Off)
	copy(buf[c.Off:], b)
	in := buf[c.Off:]
	rec.Eval()
	got, want := lz4.VerifChecksumZero(in), ref.XXH32(in, 0)
	rec.Class(fmt.Sprintf("oneshot/len%%16=%d", len(in)%16))
	if len(in) >= 16 {
		rec.Class("oneshot/len>=16")
	}
	if got != want {
		return stat.Failf("C13/one-shot-differs", "ChecksumZero(len %d)=%08x reference %08x", len(in), got, want)
	}
	return nil
}

// ---------------------------------------------------------------- C13 streaming

type c13Op struct {
	Op string `json:"op"` // write | sum | sumbytes | reset
	N  int    `json:"n,omitempty"`
}

type c13Stream struct {
	Data  gen.Data `json:"data"`
	Ops   []c13Op  `json:"ops"`
	Fresh bool     `json:"fresh"` // zero value (true) or Reset() first (false)
}

var c13WriteLens = []int{0, 1, 2, 3, 4, 5, 7, 8, 12, 13, 15, 16, 17, 20, 31, 32, 33, 47, 48, 49, 63, 64, 65, 255, 4095, 4096, 65536}

func drawC13Stream(t *rapid.T) c13Stream {
	var c c13Stream
	c.Fresh = rapid.Bool().Draw(t, "fresh")
	nops := rapid.IntRange(1, 24).Draw(t, "nops")
	total := 0
	for i := 0; i < nops; i++ {
		switch k := rapid.IntRange(0, 9).Draw(t, "opkind"); {
		case k <= 5:
			var n int
			if rapid.Bool().Draw(t, "lenclass") {
				n = rapid.SampledFrom(c13WriteLens).Draw(t, "wlen")
			} else {
				n = rapid.IntRange(0, 40).Draw(t, "wlen")
			}
			c.Ops = append(c.Ops, c13Op{Op: "write", N: n})
			total += n
		case k <= 7:
			c.Ops = append(c.Ops, c13Op{Op: "sum"})
		case k == 8:
			c.Ops = append(c.Ops, c13Op{Op: "sumbytes"})
		default:
			c.Ops = append(c.Ops, c13Op{Op: "reset"})
		}
	}
	c.Data = gen.DrawDataN(t, total, "data")
	return c
}

func runC13Stream(c c13Stream, rec *stat.Rec) *stat.Failure {
	data := c.Data.Build()
	var x lz4.VerifXXH32
	var m ref.XXH32Stream
	if !c.Fresh {
		x.Reset()
	}
	rec.Eval()
	pos := 0
	buffered := 0 // model of the number of carried bytes, for classification only
	crossing := 0
	var lens []int
	check := func(where string) *stat.Failure {
		got, want := x.Sum32(), m.Sum32()
		if got != want {
			return stat.Failf("C13/stream-differs", "%s: after writes %v (total %d): Sum32=%08x reference %08x", where, lens, m.Total(), got, want)
		}
		return nil
	}
	for i, op := range c.Ops {
		switch op.Op {
		case "write":
			n := op.N
			if pos+n > len(data) {
				n = len(data) - pos
			}
			chunk := data[pos : pos+n]
			pos += n
			wn, err := x.Write(chunk)
			if err != nil {
				return stat.Failf("C13/write-error", "Write returned %v", err)
			}
			// "incrementally over any split of the input into writes": a caller that splits its input goes by the count Write
			// returns (p = p[n:]); a short count with a nil error makes it hash bytes twice
			if wn != len(chunk) {
				return stat.Failf("C13/write-returns-a-short-count", "Write of %d bytes with %d bytes buffered returned (%d, nil); all %d bytes were absorbed", len(chunk), buffered, wn, len(chunk))
			}
			m.Write(chunk)
			rec.Class(fmt.Sprintf("stream/buffered=%d,next=%s", buffered, lenClass(n)))
			if buffered+n >= 16 && n > 0 {
				crossing++
			}
			buffered = (buffered + n) % 16
			lens = append(lens, n)
		case "sum":
			if f := check(fmt.Sprintf("op %d", i)); f != nil {
				return f
			}
			// Sum32 must not disturb the state: ask twice
			if f := check(fmt.Sprintf("op %d (second Sum32)", i)); f != nil {
				return f
			}
		case "sumbytes":
			got := x.Sum([]byte{0xEE})
			w := m.Sum32()
			want := []byte{0xEE, byte(w), byte(w >> 8), byte(w >> 16), byte(w >> 24)}
			if string(got) != string(want) {
				return stat.Failf("C13/sum-bytes-differ", "Sum=% x want % x", got, want)
			}
		case "reset":
			x.Reset()
			m.Reset()
			buffered = 0
			lens = append(lens, -1)
		}
	}
	if f := check("end"); f != nil {
		return f
	}
	if crossing >= 2 {
		rec.NonTrivial(stat.FP(fmt.Sprint(lens), data))
		rec.Class("stream/nontrivial")
	}
	rec.Sample(map[string]interface{}{"check": "stream", "writes(-1=reset)": lens, "total": m.Total()})
	return nil
}

func lenClass(n int) string {
	switch {
	case n == 0:
		return "0"
	case n < 16:
		return "1..15"
	case n == 16:
		return "16"
	case n < 32:
		return "17..31"
	default:
		return ">=32"
	}
}

// ---------------------------------------------------------------- C13 large totals

type c13Large struct {
	Start   uint64 `json:"start"`   // bytes streamed in bulk first
	Chunk   int    `json:"chunk"`   // bulk chunk size
	Steps   int    `json:"steps"`   // then this many single-byte writes, comparing after each
	PatSeed uint64 `json:"patseed"` // content pattern
	// Single > 0 (64-bit platforms): after Start bytes, ONE Write call of this many zero bytes (an anonymous read-only mapping: no memory is
	// touched), then the single-byte steps. A total that reaches 2^32 within one call, from fewer than 16 bytes.
	Single uint64 `json:"single,omitempty"`
}

func runC13Large(c c13Large, rec *stat.Rec) *stat.Failure {
	pat := make([]byte, 1<<20)
	gen.Fill(pat, c.PatSeed)
	var x lz4.VerifXXH32
	var m ref.XXH32Stream
	left := c.Start
	chunk := c.Chunk
	if chunk <= 0 || chunk > len(pat) {
		chunk = len(pat)
	}
	for left > 0 {
		n := uint64(chunk)
		if n > left {
			n = left
		}
		_, _ = x.Write(pat[:n])
		m.WriteFast(pat[:n])
		left -= n
	}
	if c.Single > 0 {
		if strconv.IntSize < 64 {
			rec.Class("large/single-write-skipped-on-32-bit")
			return nil
		}
		big, err := syscall.Mmap(-1, 0, int(c.Single), syscall.PROT_READ, syscall.MAP_ANON|syscall.MAP_PRIVATE)
		if err != nil {
			return stat.Failf("harness-problem", "cannot map %d bytes: %v", c.Single, err)
		}
		n, werr := x.Write(big)
		m.WriteFast(big)
		_ = syscall.Munmap(big)
		if werr != nil || uint64(n) != c.Single {
			return stat.Failf("C13/write-count-wrong", "one Write of %d bytes after %d returned (%d, %v)", c.Single, c.Start, n, werr)
		}
		rec.Class("large/one-write-call-that-crosses-2^32")
	}
	for i := 0; i <= c.Steps; i++ {
		rec.Eval()
		got, want := x.Sum32(), m.Sum32()
		rec.Class("large/compared")
		if m.Total() >= 1<<32 {
			rec.NonTrivial(stat.FP("large", c.Start, c.Chunk, i, c.PatSeed))
			rec.Class("large/total>=2^32")
		}
		if got != want {
			return stat.Failf("C13/large-total-differs", "total %d (2^32%+d): Sum32=%08x reference %08x", m.Total(), int64(m.Total())-(1<<32), got, want)
		}
		b := []byte{pat[i%len(pat)]}
		_, _ = x.Write(b)
		m.Write(b)
	}
	// the same object after Reset: short messages (the "fewer than 16 bytes" branch) after a multi-GiB history
	for n := 0; n <= 40; n++ {
		x.Reset()
		m.Reset()
		if n%2 == 1 || n > 16 {
			_, _ = x.Write(pat[5 : 5+n])
			m.Write(pat[5 : 5+n])
		} // (even n <= 16: Sum32 right after Reset, then the write)
		rec.Eval()
		rec.Class("large/reset-after-2^32-then-short-message")
		if got, want := x.Sum32(), m.Sum32(); got != want {
			return stat.Failf("C13/wrong-after-reset-following-a-large-total", "after %d bytes, Reset, then %d bytes: Sum32=%08x reference %08x", c.Start+uint64(c.Steps)+1, m.Total(), got, want)
		}
		if !(n%2 == 1 || n > 16) {
			_, _ = x.Write(pat[5 : 5+n])
			m.Write(pat[5 : 5+n])
			if got, want := x.Sum32(), m.Sum32(); got != want {
				return stat.Failf("C13/wrong-after-reset-following-a-large-total", "after %d bytes, Reset, Sum32, then %d bytes: Sum32=%08x reference %08x", c.Start+uint64(c.Steps)+1, m.Total(), got, want)
			}
		}
	}
	rec.Sample(map[string]interface{}{"check": "large", "start": c.Start, "chunk": chunk, "single-byte steps": c.Steps})
	return nil
}

func init() {
	register("C13", "C13/oneshot", runC13OneShot)
	register("C13", "C13/stream", runC13Stream)
	register("C13", "C13/large", runC13Large)
}

const c13Rule = "one-shot: every length 0..300 x 3 contents, then generated data up to 1 MiB; streaming: rapid-drawn op lists " +
	"(write lengths from the boundary set, Sum32 probes, Reset, zero-value use) plus the exhaustive 16 x next-length table; large: a bulk " +
	"stream up to 2^32-1 (and 2^33-1) bytes then single-byte steps with a comparison after each. Non-trivial = streaming case with >= 2 " +
	"writes that cross a 16-byte boundary (distinct by write-length list and content) or any comparison at a total >= 2^32. After the large walk the same object is Reset and hashes 0..40 bytes. " +
	"Constructed inputs whose stripe leaves all four accumulators at zero, with every Write boundary in the following 16 bytes."

func TestC13Pinned(t *testing.T) {
	rec := stat.For("C13")
	rec.SetRule(c13Rule)
	// one-shot: every length 0..300, three contents, two alignments
	for n := 0; n <= 300; n++ {
		for s := uint64(0); s < 3; s++ {
			pinned(t, "C13", "C13/oneshot", c13OneShot{Data: gen.Data{Segs: []gen.Seg{{K: "rand", N: n, S: s + 1}}}, Off: int(s)}, runC13OneShot)
		}
	}
	// streaming: the complete (buffered 0..15) x (next write length) table, then a Sum32
	for buffered := 0; buffered < 16; buffered++ {
		for _, next := range c13WriteLens {
			for _, tail := range []int{0, 1, 5, 16} {
				c := c13Stream{Fresh: buffered%2 == 0, Data: gen.Data{Segs: []gen.Seg{{K: "rand", N: buffered + next + tail + 32, S: uint64(buffered*131 + next)}}},
					Ops: []c13Op{{Op: "write", N: 32}, {Op: "write", N: buffered}, {Op: "sum"}, {Op: "write", N: next}, {Op: "sum"}, {Op: "write", N: tail}, {Op: "sumbytes"}}}
				pinned(t, "C13", "C13/stream", c, runC13Stream)
			}
		}
	}
}

// TestC13ZeroLanes: inputs constructed so that all four accumulators are zero after a stripe (the state then looks like
// the zero value of the hasher), with every Write boundary in the 16 bytes that follow.
func TestC13ZeroLanes(t *testing.T) {
	rec := stat.For("C13")
	rec.SetRule(c13Rule)
	for _, plen := range []int{0, 16, 32, 4096, 65536} {
		prefix := make([]byte, plen)
		gen.Fill(prefix, uint64(plen)+3)
		stripe := ref.ZeroLanesStripe(prefix)
		var self ref.XXH32Stream
		self.Write(prefix)
		self.Write(stripe[:])
		if self.Lanes() != [4]uint32{} {
			t.Fatalf("HARNESS PROBLEM: ZeroLanesStripe does not zero the accumulators: %x", self.Lanes())
		}
		tail := make([]byte, 48)
		gen.Fill(tail, 99)
		raw := append(append(append([]byte(nil), prefix...), stripe[:]...), tail...)
		for j := 0; j <= 16; j++ {
			for _, fresh := range []bool{true, false} {
				for _, firstSplit := range []int{plen + 16 + j, plen} {
					ops := []c13Op{{Op: "write", N: firstSplit}, {Op: "sum"}}
					if firstSplit == plen {
						ops = append(ops, c13Op{Op: "write", N: 16 + j}, c13Op{Op: "sum"})
					}
					ops = append(ops, c13Op{Op: "write", N: 5}, c13Op{Op: "sum"}, c13Op{Op: "write", N: len(raw)}, c13Op{Op: "sumbytes"})
					c := c13Stream{Fresh: fresh, Data: gen.Data{Segs: []gen.Seg{{K: "raw", N: len(raw), Raw: raw}}}, Ops: ops}
					pinned(t, "C13", "C13/stream", c, runC13Stream)
					rec.Class("stream/accumulators-all-zero-after-a-stripe")
				}
			}
		}
	}
}

func TestC13(t *testing.T) {
	rec := stat.For("C13")
	rec.SetRule(c13Rule)
	rec.Require("stream/nontrivial", "large/total>=2^32")
	checkProp(t, "C13", "C13/oneshot", pick(1000, 300000), func(rt *rapid.T) c13OneShot {
		return c13OneShot{Data: gen.DrawData(rt, 1<<20, "data"), Off: rapid.IntRange(0, 7).Draw(rt, "off")}
	}, runC13OneShot)
	checkProp(t, "C13", "C13/stream", pick(40000, 4000000), drawC13Stream, runC13Stream)
}

// TestC13Large walks the 32-bit boundary of the total length: 2^32-1 .. 2^32+16 (quick),
// thorough adds two more chunkings and the 2^33 boundary.
func TestC13Large(t *testing.T) {
	rec := stat.For("C13")
	rec.SetRule(c13Rule)
	cases := []c13Large{{Start: 1<<32 - 1, Chunk: 1 << 20, Steps: 17, PatSeed: uint64(seed)},
		// 5 bytes, then one Write call of 2^32 - 2 bytes (total 2^32 + 3: the low 32 bits say "fewer than 16 bytes")
		{Start: 5, Chunk: 5, Steps: 17, PatSeed: uint64(seed) + 20, Single: 1<<32 - 2}}
	if thorough() {
		cases = append(cases,
			c13Large{Start: 0, Steps: 17, PatSeed: uint64(seed) + 21, Single: 1 << 32},
			c13Large{Start: 15, Chunk: 15, Steps: 3, PatSeed: uint64(seed) + 22, Single: 1<<32 - 15},
			c13Large{Start: 16, Chunk: 16, Steps: 3, PatSeed: uint64(seed) + 23, Single: 1<<33 - 16})
		cases = append(cases,
			c13Large{Start: 1<<32 - 1, Chunk: 65521, Steps: 17, PatSeed: uint64(seed) + 1},
			c13Large{Start: 1<<32 - 1, Chunk: 4099, Steps: 17, PatSeed: uint64(seed) + 2},
			c13Large{Start: 1<<33 - 1, Chunk: 1 << 20, Steps: 17, PatSeed: uint64(seed) + 3},
			c13Large{Start: 1<<32 - 17, Chunk: 65537, Steps: 40, PatSeed: uint64(seed) + 4},
			c13Large{Start: 1<<32 - 1, Chunk: 17, Steps: 17, PatSeed: uint64(seed) + 5},
			c13Large{Start: 3<<32 - 1, Chunk: 1<<20 - 3, Steps: 17, PatSeed: uint64(seed) + 6},
			c13Large{Start: 1<<34 - 1, Chunk: 1 << 20, Steps: 17, PatSeed: uint64(seed) + 7},
			// 2^36 bytes = 2^32 stripes of 16 bytes: where a 32-bit stripe counter would wrap (about a minute)
			c13Large{Start: 1<<36 - 1, Chunk: 1 << 20, Steps: 17, PatSeed: uint64(seed) + 8})
	}
	if nshards > 1 {
		// one large case per shard
		var mine []c13Large
		for i, c := range cases {
			if i%nshards == shard {
				mine = append(mine, c)
			}
		}
		cases = mine
	}
	for _, c := range cases {
		pinned(t, "C13", "C13/large", c, runC13Large)
	}
}
