package props

import (
	"bytes"
	"fmt"
	"testing"

	lz4 "github.com/pierrec/lz4/v4"
	"pgregory.net/rapid"

	"verifharness/gen"
	"verifharness/inst"
	"verifharness/ref"
	"verifharness/stat"
)

// C05: Reader acceptance is sound: whenever reading completes without error, the
// independent frame implementation accepts the consumed bytes and yields the same output.

type frameSrc struct {
	Oversize    int            `json:"oversize,omitempty"`    // enc only: append a block that decodes to the block maximum + this many bytes
	OversizeRaw int            `json:"oversizeraw,omitempty"` // enc only: append a *stored* block of block maximum + this many bytes (checksums correct)
	Kind        string         `json:"kind"`                  // writer | enc
	Opts        wopts          `json:"opts,omitempty"`
	Data        gen.Data       `json:"data,omitempty"`
	Del         delivery       `json:"delivery,omitempty"`
	Spec        *gen.FrameSpec `json:"spec,omitempty"`
}

func (s frameSrc) build() ([]byte, []byte, *stat.Failure) {
	if s.Kind == "enc" {
		spec := *s.Spec
		if s.Oversize > 0 {
			// hostile: a compressed block whose sequences produce more than the declared block maximum
			spec.Blocks = append(append([]gen.BlockSpec(nil), spec.Blocks...), gen.BlockSpec{Seqs: []gen.SeqSpec{
				{LitN: 8, LitSeed: 5, LitKind: "text", Off: 3, MLen: ref.BlockMaxOfCode(spec.BSCode) + s.Oversize - 8 - 5}, {LitN: 5, LitSeed: 6, LitKind: "text"}}})
		}
		if s.OversizeRaw > 0 {
			spec.Blocks = append(append([]gen.BlockSpec(nil), spec.Blocks...), gen.BlockSpec{Raw: true, RawN: ref.BlockMaxOfCode(spec.BSCode) + s.OversizeRaw, RawSeed: 77})
		}
		z, content := spec.Build()
		return z, content, nil
	}
	data := s.Data.Build()
	z, f := emit(s.Opts, data, "write", s.Del, nil)
	return z, data, f
}

type mutation struct {
	Op   string `json:"op"` // xor set del dup swap splice ins
	Off  int    `json:"off"`
	Len  int    `json:"len,omitempty"`
	At   int    `json:"at,omitempty"`
	Len2 int    `json:"len2,omitempty"`
	Val  byte   `json:"val,omitempty"`
	Ins  []byte `json:"ins,omitempty"`
	What string `json:"what,omitempty"` // field kind touched (for classification)
}

func clampI(x, lo, hi int) int {
	if x < lo {
		return lo
	}
	if x > hi {
		return hi
	}
	return x
}

func applyMutations(z []byte, other []byte, ms []mutation) []byte {
	out := append([]byte(nil), z...)
	for _, m := range ms {
		n := len(out)
		if n == 0 {
			break
		}
		off := clampI(m.Off, 0, n-1)
		switch m.Op {
		case "xor":
			out[off] ^= m.Val
		case "put":
			// overwrite with the given bytes
			copy(out[off:], m.Ins)
		case "zero":
			// a whole field overwritten with zero bytes
			for k := off; k < off+m.Len && k < n; k++ {
				out[k] = 0
			}
		case "set":
			out[off] = m.Val
		case "del":
			end := clampI(off+m.Len, off, n)
			out = append(out[:off:off], out[end:]...)
		case "dup":
			end := clampI(off+m.Len, off, n)
			at := clampI(m.At, 0, n)
			seg := append([]byte(nil), out[off:end]...)
			out = append(out[:at:at], append(seg, out[at:]...)...)
		case "swap":
			// regions A=[off,off+len) and B=[at,at+len2) with A before B
			a0, a1 := off, clampI(off+m.Len, off, n)
			b0 := clampI(m.At, a1, n)
			b1 := clampI(b0+m.Len2, b0, n)
			var r []byte
			r = append(r, out[:a0]...)
			r = append(r, out[b0:b1]...)
			r = append(r, out[a1:b0]...)
			r = append(r, out[a0:a1]...)
			r = append(r, out[b1:]...)
			out = r
		case "splice":
			at := clampI(m.At, 0, len(other))
			out = append(out[:off:off], other[at:]...)
		case "ins":
			out = append(out[:off:off], append(append([]byte(nil), m.Ins...), out[off:]...)...)
		}
	}
	return out
}

type c05Case struct {
	Base  frameSrc   `json:"base"`
	Other *frameSrc  `json:"other,omitempty"` // splice donor
	Muts  []mutation `json:"muts"`
	R     rcfg       `json:"reader"`
	Prev  int        `json:"prev,omitempty"` // > 0: the Reader has decoded other valid frames before (1: a dependent frame with 4 MiB blocks and a large block; 2: a legacy frame; 3: both)
}

// c05PrevFrames: valid frames an earlier life of the Reader has decoded; they need larger buffers than the frames under test.
var c05PrevCache = map[int][][]byte{}

func c05PrevFrames(kind int) [][]byte {
	if kind == 0 {
		return nil
	}
	if fs, ok := c05PrevCache[kind]; ok {
		return fs
	}
	fs := c05PrevBuild(kind)
	c05PrevCache[kind] = fs
	return fs
}

func c05PrevBuild(kind int) [][]byte {
	var out [][]byte
	if kind&1 != 0 {
		spec := gen.FrameSpec{Version: 1, BlockIndep: false, BSCode: 7, Blocks: []gen.BlockSpec{{Raw: true, RawN: 300000, RawSeed: 3},
			{Seqs: []gen.SeqSpec{{LitN: 2, LitSeed: 2, LitKind: "text", Off: 30000, MLen: 200}, {LitN: 6, LitSeed: 3, LitKind: "text"}}}}}
		z, _ := spec.Build()
		out = append(out, z)
	}
	if kind&2 != 0 {
		var sink inst.Sink
		w := lz4.NewWriter(&sink)
		_ = w.Apply(lz4.LegacyOption(true))
		_, _ = w.Write(opData(70000, 9))
		_ = w.Close()
		out = append(out, sink.Buf)
	}
	return out
}

func drawFrameSrc(t *rapid.T, label string) frameSrc {
	var s frameSrc
	if rapid.Bool().Draw(t, label+".enc?") {
		s.Kind = "enc"
		spec := gen.DrawFrameSpec(t, gen.FrameParams{Dependent: 1, MaxBlocks: 5, MaxBlockLen: 3000, Skips: true})
		s.Spec = &spec
		if rapid.IntRange(0, 7).Draw(t, label+".oversize?") == 0 {
			s.Oversize = rapid.SampledFrom([]int{1, 2, 17, 4096, 65536}).Draw(t, label+".oversize")
		} else if rapid.IntRange(0, 7).Draw(t, label+".oversizeraw?") == 0 {
			s.OversizeRaw = rapid.SampledFrom([]int{1, 16, 100, 257, 273, 274, 4096}).Draw(t, label+".oversizeraw")
		}
		return s
	}
	s.Kind = "writer"
	s.Opts = drawWopts(t, false, 1)
	var n int
	if rapid.IntRange(0, 4).Draw(t, label+".big?") == 0 {
		n = sizeAround(t, s.Opts.blockSize(), 200<<10)
		if s.Opts.Legacy {
			n = rapid.IntRange(0, 3000).Draw(t, label+".nlegacy")
		}
	} else {
		n = rapid.IntRange(0, 3000).Draw(t, label+".n")
	}
	s.Data = drawFrameData(t, n)
	s.Del = drawDelivery(t, n, s.Opts.blockSize(), true, false)
	if s.Opts.Legacy {
		s.Del.Flush = nil
	}
	return s
}

// blockRegions returns [start,end) of every block (size word .. checksum) of a parsed frame.
func blockRegions(fr *ref.Frame) [][2]int {
	var regs [][2]int
	cur := -1
	for _, f := range fr.Fields {
		switch f.Kind {
		case "bsize":
			regs = append(regs, [2]int{f.Off, f.Off + f.Len})
			cur = len(regs) - 1
		case "bdata", "bsum":
			if cur >= 0 {
				regs[cur][1] = f.Off + f.Len
			}
		}
	}
	return regs
}

func drawMutation(t *rapid.T, z []byte, fr *ref.Frame, otherLen int) mutation {
	var m mutation
	n := len(z)
	pickField := func() ref.Field {
		if len(fr.Fields) == 0 || rapid.IntRange(0, 9).Draw(t, "anywhere?") == 0 {
			return ref.Field{Kind: "any", Off: 0, Len: n}
		}
		// weight small structural fields as much as (large) payloads
		f := rapid.SampledFrom(fr.Fields).Draw(t, "field")
		if f.Len == 0 {
			f.Len = 1
		}
		return f
	}
	regs := blockRegions(fr)
	op := rapid.SampledFrom([]string{"xor", "xor", "xor", "xor", "set", "set", "zero", "zero", "del", "dup", "swap", "splice", "ins", "blockdel", "blockdup", "blockswap", "forge", "forge", "magicins"}).Draw(t, "mop")
	switch op {
	case "forge":
		// a checksum field replaced by a *plausible* wrong value: the XXH32 of the wrong bytes (decoded instead of stored
		// block, content without its last block ...), the right value byte-swapped or seeded differently
		var cands []ref.Field
		for _, f := range fr.Fields {
			if f.Kind == "bsum" || f.Kind == "csum" {
				cands = append(cands, f)
			}
		}
		if len(cands) == 0 {
			m.Op, m.What, m.Off, m.Val = "xor", "any", rapid.IntRange(0, n-1).Draw(t, "off"), 1
			break
		}
		f := rapid.SampledFrom(cands).Draw(t, "forge.field")
		var v uint32
		cur := uint32(z[f.Off]) | uint32(z[f.Off+1])<<8 | uint32(z[f.Off+2])<<16 | uint32(z[f.Off+3])<<24
		how := rapid.IntRange(0, 3).Draw(t, "forge.how")
		switch {
		case how == 0 && f.Kind == "bsum" && f.Block < len(fr.Blocks):
			// XXH32 of the *decoded* bytes of that block
			start := 0
			for i := 0; i < f.Block; i++ {
				start += fr.Blocks[i].Decoded
			}
			if start+fr.Blocks[f.Block].Decoded <= len(fr.Content) {
				v = ref.XXH32(fr.Content[start:start+fr.Blocks[f.Block].Decoded], 0)
			}
		case how == 0:
			// content checksum of everything but the last block
			last := 0
			if len(fr.Blocks) > 0 {
				last = fr.Blocks[len(fr.Blocks)-1].Decoded
			}
			v = ref.XXH32(fr.Content[:len(fr.Content)-last], 0)
		case how == 1:
			v = cur>>24 | cur>>8&0xFF00 | cur<<8&0xFF0000 | cur<<24 // big-endian
		case how == 2:
			v = ref.XXH32(z[f.Off-minInt2(f.Off, 16):f.Off], 1) // some other seed / bytes
		default:
			v = ^cur
		}
		m.Op, m.What, m.Off = "ins", f.Kind+"-forged", f.Off
		m.Ins = []byte{byte(v), byte(v >> 8), byte(v >> 16), byte(v >> 24)}
		m.Len = 4 // replace, not insert: handled below
		m.Op = "put"
	case "magicins":
		// a well-known 32-bit word (frame / legacy / skippable magic) inserted where a block size, an end mark or a
		// checksum is expected
		var cands []ref.Field
		for _, f := range fr.Fields {
			switch f.Kind {
			case "bsize", "endmark", "csum", "bsum", "lbsize":
				cands = append(cands, f)
			}
		}
		off := rapid.IntRange(0, n).Draw(t, "magic.off")
		if len(cands) > 0 {
			off = rapid.SampledFrom(cands).Draw(t, "magic.field").Off
		}
		w := rapid.SampledFrom([]uint32{ref.MagicLegacy, ref.MagicFrame, ref.MagicSkipFirst, ref.MagicSkipLast}).Draw(t, "magic.word")
		m.Op, m.What, m.Off = "ins", "magic-word", off
		m.Ins = []byte{byte(w), byte(w >> 8), byte(w >> 16), byte(w >> 24)}
		if w >= ref.MagicSkipFirst && w <= ref.MagicSkipLast {
			m.Ins = append(m.Ins, 0, 0, 0, 0)
		}
	case "zero":
		// prefer the integrity fields: a field of zeros is what "not set" looks like to sloppy code
		var cands []ref.Field
		for _, f := range fr.Fields {
			switch f.Kind {
			case "bsum", "csum", "hc", "bsize", "csize":
				cands = append(cands, f)
			}
		}
		f := pickField()
		if len(cands) > 0 && rapid.IntRange(0, 4).Draw(t, "zero.any") != 0 {
			f = rapid.SampledFrom(cands).Draw(t, "zero.field")
		}
		m.Op, m.What, m.Off, m.Len = "zero", f.Kind, f.Off, f.Len
		if f.Kind == "any" || f.Kind == "bdata" || f.Kind == "skipdata" {
			m.Off = f.Off + rapid.IntRange(0, f.Len-1).Draw(t, "foff")
			m.Len = rapid.IntRange(1, 8).Draw(t, "zlen")
		}
	case "xor":
		f := pickField()
		m.Op, m.What = "xor", f.Kind
		m.Off = f.Off + rapid.IntRange(0, f.Len-1).Draw(t, "foff")
		m.Val = 1 << uint(rapid.IntRange(0, 7).Draw(t, "bit"))
		if rapid.IntRange(0, 3).Draw(t, "multibit") == 0 {
			m.Val = byte(rapid.IntRange(1, 255).Draw(t, "mask"))
		}
	case "set":
		f := pickField()
		m.Op, m.What = "set", f.Kind
		m.Off = f.Off + rapid.IntRange(0, f.Len-1).Draw(t, "foff")
		m.Val = rapid.SampledFrom([]byte{0, 1, 0x7f, 0x80, 0xff, 0x04, 0x22, 0x4d, 0x18}).Draw(t, "val")
	case "del":
		f := pickField()
		m.Op, m.What = "del", f.Kind
		m.Off = f.Off + rapid.IntRange(0, f.Len-1).Draw(t, "foff")
		m.Len = rapid.SampledFrom([]int{1, 2, 3, 4, 5, 8}).Draw(t, "dlen")
	case "ins":
		f := pickField()
		m.Op, m.What = "ins", f.Kind
		m.Off = f.Off + rapid.IntRange(0, f.Len-1).Draw(t, "foff")
		m.Ins = rapid.SliceOfN(rapid.Byte(), 1, 8).Draw(t, "ins")
	case "dup", "swap":
		m.Op, m.What = op, "any"
		m.Off = rapid.IntRange(0, n-1).Draw(t, "off")
		m.Len = rapid.IntRange(1, 16).Draw(t, "len")
		m.At = rapid.IntRange(0, n).Draw(t, "at")
		m.Len2 = rapid.IntRange(1, 16).Draw(t, "len2")
	case "splice":
		m.Op, m.What = "splice", "any"
		m.Off = rapid.IntRange(0, n-1).Draw(t, "off")
		m.At = rapid.IntRange(0, otherLen).Draw(t, "at")
	case "blockdel", "blockdup", "blockswap":
		if len(regs) == 0 {
			m.Op, m.What, m.Off, m.Val = "xor", "any", rapid.IntRange(0, n-1).Draw(t, "off"), 1
			break
		}
		i := rapid.IntRange(0, len(regs)-1).Draw(t, "blk")
		m.What = "block"
		switch op {
		case "blockdel":
			m.Op, m.Off, m.Len = "del", regs[i][0], regs[i][1]-regs[i][0]
		case "blockdup":
			j := rapid.IntRange(0, len(regs)-1).Draw(t, "blk2")
			m.Op, m.Off, m.Len, m.At = "dup", regs[i][0], regs[i][1]-regs[i][0], regs[j][0]
		default:
			j := rapid.IntRange(0, len(regs)-1).Draw(t, "blk2")
			if j < i {
				i, j = j, i
			}
			if i == j {
				m.Op, m.Off, m.Len = "del", regs[i][0], regs[i][1]-regs[i][0]
			} else {
				m.Op, m.Off, m.Len, m.At, m.Len2 = "swap", regs[i][0], regs[i][1]-regs[i][0], regs[j][0], regs[j][1]-regs[j][0]
			}
		}
	}
	return m
}

func drawC05(t *rapid.T) c05Case {
	var c c05Case
	c.Base = drawFrameSrc(t, "base")
	z, _, f := c.Base.build()
	if f != nil || len(z) == 0 {
		return c
	}
	fr := ref.ParseFrame(z, ref.Lenient)
	otherLen := 0
	if rapid.IntRange(0, 5).Draw(t, "donor?") == 0 {
		o := drawFrameSrc(t, "other")
		c.Other = &o
		oz, _, _ := o.build()
		otherLen = len(oz)
	}
	k := rapid.SampledFrom([]int{1, 1, 1, 2, 3}).Draw(t, "nmut")
	for i := 0; i < k; i++ {
		m := drawMutation(t, z, fr, otherLen)
		if m.Op == "splice" && c.Other == nil {
			m.Op, m.Val = "xor", 0x10
		}
		c.Muts = append(c.Muts, m)
	}
	c.R = drawRcfg(t, 65536)
	if rapid.IntRange(0, 7).Draw(t, "reused?") == 0 {
		c.Prev = rapid.IntRange(1, 3).Draw(t, "prev")
	}
	c.R.Src = nil
	return c
}

func runC05(c c05Case, rec *stat.Rec) *stat.Failure {
	z, _, f := c.Base.build()
	if f != nil {
		rec.Class("skipped/base-frame-not-built")
		return nil // belongs to C02/C09
	}
	var other []byte
	if c.Other != nil {
		other, _, _ = c.Other.build()
	}
	mz := applyMutations(z, other, c.Muts)
	unchanged := bytes.Equal(mz, z) && c.Base.Oversize == 0 && c.Base.OversizeRaw == 0
	if c.Base.OversizeRaw > 0 {
		rec.Class("hostile/stored-block-larger-than-the-block-maximum")
	}
	if c.Base.Oversize > 0 {
		rec.Class("hostile/block-decodes-beyond-the-block-maximum")
	}
	rec.Eval()
	res := readAllAfter(c05PrevFrames(c.Prev), mz, c.R, nil)
	if c.Prev > 0 {
		rec.Class("reader/reused-after-other-frames")
	}
	mode := fmt.Sprintf("conc>1=%v/writeto=%v", concOf(c.R.Conc) > 1, c.R.WriteTo)
	what := "none"
	if len(c.Muts) > 0 {
		what = c.Muts[0].What
	}
	if res.Err != nil {
		// rejecting is always allowed by this property
		fr := ref.ParseFrame(mz, ref.Lenient)
		if fr.OK() && fr.OutOfDom == "" && fr.Unspec == "" {
			rec.Class("verdict/reader-rejects-only(allowed)")
		} else {
			rec.Class("verdict/rejected-by-both")
		}
		rec.Class("mutated/"+what, "reader/"+mode)
		if !unchanged {
			rec.NonTrivial(stat.FP(mz, fmt.Sprint(c.R)))
		}
		return nil
	}
	// clean end of stream: the reference must accept exactly the consumed bytes with the same output
	consumed := mz[:res.Consumed]
	fr := ref.ParseFrame(consumed, ref.Lenient)
	switch {
	case fr.NoFrame && len(res.Out) == 0:
		rec.Class("out_of_domain/no-data-frame")
		return nil
	case fr.Legacy:
		rec.Class("out_of_domain/legacy")
		return nil
	case fr.OutOfDom != "":
		rec.Class("out_of_domain/" + fr.OutOfDom)
		return nil
	case fr.Unspec != "":
		rec.Class("out_of_domain/block-" + fr.Unspec)
		return nil
	}
	if !fr.OK() {
		sig := firstWords(stripBlockNo(fr.Err), 4)
		if fr.Truncated {
			sig = "truncated-" + lastWords(fr.Err, 3)
		}
		return stat.Failf("C05/reader-accepts-what-the-reference-rejects/"+sig, "mutations %+v; reader %+v: Reader returned %d bytes and a clean end of stream after consuming %d of %d bytes; reference: %s (offset %d)", c.Muts, c.R, len(res.Out), res.Consumed, len(mz), fr.Err, fr.ErrOff)
	}
	if fr.Consumed != res.Consumed {
		return stat.Failf("C05/consumed-differs", "mutations %+v; reader %+v: Reader consumed %d bytes, the reference frame ends at %d", c.Muts, c.R, res.Consumed, fr.Consumed)
	}
	if !bytes.Equal(fr.Content, res.Out) {
		return stat.Failf("C05/output-differs-from-reference/"+mode, "mutations %+v; reader %+v: Reader output %d bytes, reference %d, first difference at %d", c.Muts, c.R, len(res.Out), len(fr.Content), firstDiff(res.Out, fr.Content))
	}
	rec.Class("verdict/accepted-by-both", "mutated/"+what, "reader/"+mode)
	if !unchanged {
		rec.NonTrivial(stat.FP(mz, fmt.Sprint(c.R)))
		rec.Class("accepted-by-both/changed-bytes")
	}
	rec.Sample(map[string]interface{}{"base": c.Base.Kind, "frame": len(z), "mutations": c.Muts, "reader": c.R, "verdict": "accepted by both", "output": len(res.Out)})
	return nil
}

func minInt2(a, b int) int {
	if a < b {
		return a
	}
	return b
}

func lastWords(s string, n int) string {
	w := bytes.Fields([]byte(s))
	if len(w) > n {
		w = w[len(w)-n:]
	}
	return string(bytes.Join(w, []byte("-")))
}

func init() { register("C05", "C05/mutate", runC05) }

const c05Rule = "valid frames (Writer with every option combination and Flush partitions; independent encoder incl. leading skippable frames, dependent blocks, raw and " +
	"empty blocks) mutated through the structure map of the reference parser: single/multi-bit flips and byte substitutions at every field kind (magic, FLG, BD, size, " +
	"header checksum, block size, payload, block checksum, end mark, content checksum), byte deletion/insertion, block deletion/duplication/reordering, region swaps and " +
	"splices with a second frame; 1..3 mutations per case; read with concurrency {1,2,4,GOMAXPROCS} through Read (drawn sizes) or WriteTo behind a counting source. " +
	"Oracle: a clean end of stream implies the reference accepts exactly the consumed bytes with identical output. Non-trivial = the mutated bytes differ from the " +
	"valid frame; distinct by hash(mutated bytes, reader)."

// TestC05Pinned: hostile shapes that a mutation reaches only rarely.
func TestC05Pinned(t *testing.T) {
	stat.For("C05").SetRule(c05Rule)
	base := gen.FrameSpec{Version: 1, BlockIndep: true, BSCode: 4, Blocks: []gen.BlockSpec{{Seqs: []gen.SeqSpec{{LitN: 20, LitSeed: 1, LitKind: "text"}}}}}
	for _, over := range []int{1, 17, 65536} {
		for _, csum := range []bool{false, true} {
			spec := base
			spec.ContentSum = csum
			for _, rc := range []rcfg{{Conc: 1, Sizes: []int{64 << 20}}, {Conc: 1, Sizes: []int{131072}}, {Conc: 1, Sizes: []int{65536}}, {Conc: 1, Sizes: []int{7}}, {Conc: 1, WriteTo: true}, {Conc: 4, Sizes: []int{64 << 20}}, {Conc: 2, WriteTo: true}} {
				sp := spec
				pinned(t, "C05", "C05/mutate", c05Case{Base: frameSrc{Kind: "enc", Spec: &sp, Oversize: over}, R: rc}, runC05)
				sp2 := spec
				pinned(t, "C05", "C05/mutate", c05Case{Base: frameSrc{Kind: "enc", Spec: &sp2, OversizeRaw: over%300 + 1}, R: rc}, runC05)
			}
		}
	}
}

func TestC05(t *testing.T) {
	rec := stat.For("C05")
	rec.SetRule(c05Rule)
	rec.Require("mutated/bsum-forged", "mutated/csum-forged", "mutated/magic-word", "hostile/stored-block-larger-than-the-block-maximum", "hostile/block-decodes-beyond-the-block-maximum", "verdict/rejected-by-both", "verdict/accepted-by-both", "mutated/csum", "mutated/bsum", "mutated/hc", "mutated/bsize", "mutated/bdata", "mutated/endmark", "mutated/block", "mutated/flg", "mutated/bd")
	checkProp(t, "C05", "C05/mutate", pick(40000, 600000), drawC05, runC05)
}
