package props

import (
	"bytes"
	"fmt"
	"io"
	"sync/atomic"
	"testing"

	lz4 "github.com/pierrec/lz4/v4"
	"pgregory.net/rapid"

	"verifharness/gen"
	"verifharness/inst"
	"verifharness/ref"
	"verifharness/stat"
)

// C09: emitted frames conform to the frame specification (modern and legacy).

type c09Case struct {
	Opts  wopts     `json:"opts"`
	Data  gen.Data  `json:"data"`
	Entry string    `json:"entry"` // write | readfrom | creader
	Del   delivery  `json:"delivery"`
	Zero  string    `json:"zero"` // "" | block | content : patch the data so that the XXH32 of the first block / of the content is 0
	RSize []int     `json:"rsize,omitempty"`
	Prev  []c09Prev `json:"prev,omitempty"` // frames written earlier with the same Writer (Close, Reset in between)
}

// c09Prev: an earlier frame of the same Writer, with its own options.
type c09Prev struct {
	Opts   wopts `json:"opts"`
	N      int   `json:"n"`
	Legacy *bool `json:"legacy,omitempty"` // when set, the earlier frame only toggles legacy mode and keeps every other option as it is
}

// emit produces the frame for a case through the chosen entry point.
func emit(o wopts, data []byte, entry string, d delivery, rsizes []int) ([]byte, *stat.Failure) {
	return emitAfter(nil, o, data, entry, d, rsizes)
}

// emitAfter is emit on a Writer that has already written the prev frames (each closed, then Reset).
func emitAfter(prev []c09Prev, o wopts, data []byte, entry string, d delivery, rsizes []int) ([]byte, *stat.Failure) {
	switch entry {
	case "creader":
		cr := lz4.NewCompressingReader(&inst.ReadCloser{Reader: bytes.NewReader(data)})
		opts := []lz4.Option{lz4.BlockSizeOption(blockSizes[o.BS]), lz4.BlockChecksumOption(o.BlockSum), lz4.ChecksumOption(o.ContentSum),
			lz4.CompressionLevelOption(lz4.CompressionLevel(o.Level))}
		if o.Size {
			opts = append(opts, lz4.SizeOption(uint64(len(data))))
		}
		if err := cr.Apply(opts...); err != nil {
			return nil, stat.Failf("C09/creader-apply-rejects-valid-options", "%v", err)
		}
		var out []byte
		if len(rsizes) == 0 {
			rsizes = []int{4096}
		}
		buf := make([]byte, 1<<16)
		for i := 0; i < 1<<24; i++ {
			sz := rsizes[i%len(rsizes)]
			if sz > len(buf) {
				sz = len(buf)
			}
			if sz < 1 {
				sz = 1
			}
			n, err := cr.Read(buf[:sz])
			out = append(out, buf[:n]...)
			if err == io.EOF {
				return out, nil
			}
			if err != nil {
				return nil, stat.Failf("C09/creader-read-fails/"+errClass(err), "%v", err)
			}
		}
		return nil, stat.Failf("C09/creader-never-ends", "no io.EOF after 2^24 reads")
	default:
		var sink inst.Sink
		w := lz4.NewWriter(&sink)
		if len(prev) > 0 && prev[len(prev)-1].Legacy != nil {
			// configure the block size once, up front; the earlier frames then only toggle legacy mode
			if err := w.Apply(lz4.BlockSizeOption(blockSizes[o.BS])); err != nil {
				return nil, stat.Failf("C09/apply-rejects-valid-options", "Apply(block size): %v", err)
			}
		}
		for i, p := range prev {
			var psink inst.Sink
			w.Reset(&psink)
			pd := opData(p.N, uint64(i)+7)
			popts := p.Opts.options(len(pd), nil)
			if p.Legacy != nil {
				popts = []lz4.Option{lz4.LegacyOption(*p.Legacy)}
			}
			if err := w.Apply(popts...); err != nil {
				return nil, stat.Failf("C09/apply-rejects-valid-options", "earlier frame %d: Apply(%s): %v", i, p.Opts, err)
			}
			if _, err := w.Write(pd); err != nil {
				return nil, stat.Failf("C09/writer-call-fails/"+errClass(err), "earlier frame %d: %v", i, err)
			}
			if err := w.Close(); err != nil {
				return nil, stat.Failf("C09/close-fails/"+errClass(err), "earlier frame %d: %v", i, err)
			}
			w.Reset(&sink)
		}
		if !o.Size {
			// options persist: an earlier frame's SizeOption must be cleared explicitly
			if err := w.Apply(lz4.SizeOption(0)); err != nil {
				return nil, stat.Failf("C09/apply-rejects-valid-options", "Apply(SizeOption(0)): %v", err)
			}
		}
		jopts := o.options(len(data), nil)
		if len(prev) > 0 && prev[len(prev)-1].Legacy != nil {
			// the block size configured at the very start must still be in force: do not repeat that option
			jopts = jopts[1:]
		}
		if err := w.Apply(jopts...); err != nil {
			return nil, stat.Failf("C09/apply-rejects-valid-options", "Apply(%s): %v", o, err)
		}
		if where, err := deliver(w, data, d); err != nil {
			return nil, stat.Failf("C09/writer-call-fails/"+errClass(err), "%s: %v", where, err)
		}
		if err := w.Close(); err != nil {
			return nil, stat.Failf("C09/close-fails/"+errClass(err), "%v", err)
		}
		return sink.Buf, nil
	}
}

// checkStrictFrame is the conformance oracle shared by C09, C17, C18 and C20: z must be
// exactly one frame, strictly valid, reflecting the options, with the given content.
func checkStrictFrame(pfx string, z, data []byte, o wopts, allowFlushShort bool) *stat.Failure {
	mode := ref.Strict
	f := ref.ParseFrame(z, mode)
	if o.Legacy && allowFlushShort && !f.OK() {
		// a mid-stream Flush legitimately cuts a short legacy block
		f = ref.ParseFrame(z, ref.Lenient)
	}
	if !f.OK() {
		sig := "other"
		switch {
		case f.Truncated:
			sig = "truncated"
		case o.Legacy:
			sig = "legacy-" + firstWords(f.Err, 3)
		default:
			sig = firstWords(stripBlockNo(f.Err), 3)
		}
		return stat.Failf(pfx+"/not-a-valid-frame/"+sig, "%s, %d bytes in, %d bytes out: reference parser at offset %d: %s", o, len(data), len(z), f.ErrOff, f.Err)
	}
	if f.Consumed != len(z) {
		return stat.Failf(pfx+"/bytes-after-the-frame", "%s: frame ends at %d, %d bytes were emitted", o, f.Consumed, len(z))
	}
	if f.SkipFrames != 0 {
		return stat.Failf(pfx+"/unexpected-skippable-frame", "%s", o)
	}
	if f.Legacy != o.Legacy {
		return stat.Failf(pfx+"/wrong-frame-kind", "%s: legacy=%v", o, f.Legacy)
	}
	if !bytes.Equal(f.Content, data) {
		return stat.Failf(pfx+"/content-differs", "%s: reference decodes %d bytes, input has %d, first difference at %d", o, len(f.Content), len(data), firstDiff(f.Content, data))
	}
	if f.Legacy {
		return nil
	}
	if f.BSCode != o.BS || f.BlockSum != o.BlockSum || f.ContentSum != o.ContentSum || !f.BlockIndep {
		return stat.Failf(pfx+"/header-does-not-reflect-options", "%s: FLG=%02x BD=%02x", o, f.FLG, f.BD)
	}
	wantSize := o.Size && len(data) > 0
	if f.HasSize != wantSize || (wantSize && f.Size != uint64(len(data))) {
		return stat.Failf(pfx+"/content-size-field", "%s: has=%v size=%d want has=%v size=%d", o, f.HasSize, f.Size, wantSize, len(data))
	}
	return nil
}

func firstWords(s string, n int) string {
	out, words := "", 0
	for _, w := range bytes.Fields([]byte(s)) {
		if words == n || bytes.ContainsAny(w, "0123456789") {
			break
		}
		if words > 0 {
			out += "-"
		}
		out += string(bytes.Trim(w, ":,.()"))
		words++
	}
	return out
}

func stripBlockNo(s string) string {
	// "block 3: checksum ..." -> "block checksum ..."
	b := []byte(s)
	if bytes.HasPrefix(b, []byte("block ")) {
		if i := bytes.IndexByte(b, ':'); i > 0 {
			return "block" + string(b[i+1:])
		}
	}
	return s
}

func drawC09(t *rapid.T) c09Case {
	var c c09Case
	c.Opts = drawWopts(t, true, 2)
	c.Entry = rapid.SampledFrom([]string{"write", "write", "readfrom", "creader"}).Draw(t, "entry")
	if c.Entry == "creader" {
		c.Opts.Legacy, c.Opts.Conc = false, 1
		c.RSize = rapid.SliceOfN(rapid.SampledFrom([]int{1, 6, 7, 8, 100, 4096, 65536}), 1, 3).Draw(t, "rsize")
	}
	bs := c.Opts.blockSize()
	maxLen := pick(400<<10, 9<<20)
	if c.Opts.Level != 0 {
		maxLen = pick(150<<10, 1<<20)
	}
	if !thorough() && c.Opts.BS > 5 && rapid.IntRange(0, 3).Draw(t, "shrinkbs") != 0 {
		c.Opts.BS = 4
		bs = c.Opts.blockSize()
	}
	n := sizeAround(t, bs, maxLen)
	c.Zero = rapid.SampledFrom([]string{"", "", "", "block", "content", "hc"}).Draw(t, "zero")
	switch c.Zero {
	case "hc":
		// a content size whose descriptor has a header checksum byte of 0 (a rare value, like the zero hashes)
		c.Opts.Size, c.Opts.Legacy = true, false
		flg := byte(0x40 | 0x20 | 0x08)
		if c.Opts.BlockSum {
			flg |= 0x10
		}
		if c.Opts.ContentSum {
			flg |= 0x04
		}
		start := rapid.IntRange(1, 60000).Draw(t, "hc.start")
		n = 0
		for k := start; k < start+4000; k++ {
			d := []byte{flg, byte(c.Opts.BS << 4), byte(k), byte(k >> 8), byte(k >> 16), 0, 0, 0, 0, 0}
			if byte(ref.XXH32(d, 0)>>8) == 0 {
				n = k
				break
			}
		}
		if n == 0 {
			n = start
		}
		c.Data = drawFrameData(t, n)
	case "block":
		// an incompressible (stored raw) first block whose XXH32 is 0: length a multiple of 4 with length%16 >= 4
		if n < 4 {
			n = 4
		}
		c.Data = gen.Data{Segs: []gen.Seg{{K: "rand", N: n, S: rapid.Uint64().Draw(t, "seed")}}}
	case "content":
		if n < 4 {
			n = 4
		}
		c.Data = drawFrameData(t, n)
	default:
		c.Data = drawFrameData(t, n)
	}
	if c.Entry != "creader" && rapid.IntRange(0, 2).Draw(t, "prev?") == 0 {
		for i := rapid.IntRange(1, 3).Draw(t, "nprev"); i > 0; i-- {
			po := drawWopts(t, false, 5)
			po.Conc = c.Opts.Conc
			c.Prev = append(c.Prev, c09Prev{Opts: po, N: rapid.SampledFrom([]int{0, 10, 70000}).Draw(t, "prevn")})
		}
		if rapid.Bool().Draw(t, "legacytoggles") {
			// earlier frames that only toggle legacy mode: the block size configured up front must survive them
			for i := range c.Prev {
				c.Prev[i].Legacy = bp(rapid.IntRange(0, 2).Draw(t, "prevlegacy") != 0)
			}
		}
	}
	c.Del = drawDelivery(t, n, bs, false, false)
	if c.Entry == "readfrom" {
		c.Del = delivery{Mode: "readfrom", Src: drawChunkSchedule(t, bs, "src"), EOFWith: rapid.Bool().Draw(t, "eofwith")}
	}
	return c
}

// zeroPatch patches data so that the XXH32 of its first block (what) or of the whole
// content is 0. It reports whether the patch was possible for this length.
func zeroPatch(data []byte, what string, bs int) bool {
	switch what {
	case "block":
		n := len(data)
		if n > bs {
			n = bs
		}
		n -= n % 4
		for n >= 4 && n%16 < 4 {
			n -= 4
		}
		if n < 4 {
			return false
		}
		if len(data) > bs || n == len(data) {
			// the first block is data[:bs] (or the whole input): its length must be solvable
			blk := data
			if len(data) > bs {
				blk = data[:bs]
			}
			return ref.SolveZero(blk)
		}
		return false
	case "content":
		return ref.SolveZero(data)
	}
	return false
}

var c09CLICount atomic.Int64

func runC09(c c09Case, rec *stat.Rec) *stat.Failure {
	data := c.Data.Build()
	bs := c.Opts.blockSize()
	zeroed := false
	if c.Zero != "" {
		zeroed = zeroPatch(data, c.Zero, bs)
	}
	rec.Eval()
	z, f := emitAfter(c.Prev, c.Opts, data, c.Entry, c.Del, c.RSize)
	if f != nil {
		return f
	}
	if len(c.Prev) > 0 && c.Entry != "creader" {
		rec.Class(fmt.Sprintf("writer/reused-after-%d-frames", len(c.Prev)))
	}
	if f := checkStrictFrame("C09", z, data, c.Opts, false); f != nil {
		return f
	}
	// one case in sixteen (and every pinned one) is also handed to the reference command line tool, when this machine has one
	if refCLI() != "" && len(z) <= 32<<20 {
		if k := c09CLICount.Add(1); k%16 == 1 || len(c.Prev) > 0 && k%4 == 1 {
			ok, out, msg := refCLIDecode(z)
			rec.Class("reference-cli/decoded-the-frame")
			if !ok || !bytes.Equal(out, data) {
				return stat.Failf("C09/reference-cli-does-not-decode-the-frame", "%s, entry %s, %d bytes in, frame of %d bytes: `lz4 -d` ok=%v, %d bytes out: %s", c.Opts, c.Entry, len(data), len(z), ok, len(out), firstWords(msg, 12))
			}
		}
	}
	fr := ref.ParseFrame(z, ref.Strict)
	raw, comp := 0, 0
	emptyStored := false
	for _, b := range fr.Blocks {
		if b.Raw {
			raw++
			if b.Size == 0 {
				emptyStored = true
			}
		} else {
			comp++
		}
	}
	rec.Class(c.Opts.classes("")...)
	rec.Class("entry/"+c.Entry, sizeClassRel(len(data), bs))
	if raw > 0 && comp > 0 {
		rec.Class("frame/raw+compressed-blocks")
	} else if raw > 0 {
		rec.Class("frame/raw-blocks-only")
	}
	if emptyStored {
		rec.Class("frame/empty-stored-block")
	}
	if zeroed && c.Zero == "block" && c.Opts.BlockSum && !c.Opts.Legacy {
		rec.Class("frame/zero-hash-block+blocksum")
	}
	if zeroed && c.Zero == "content" && c.Opts.ContentSum && !c.Opts.Legacy {
		rec.Class("frame/zero-hash-content+contentsum")
	}
	if !fr.Legacy && fr.HasSize && len(z) > 14 && z[14] == 0 {
		rec.Class("frame/header-checksum-byte==0")
	}
	if c.Opts.Legacy && raw == 0 && len(data) > 0 {
		rec.Class("frame/legacy-nonempty")
	}
	if (comp > 0 && (c.Opts.BlockSum || c.Opts.ContentSum)) || zeroed || emptyStored || (c.Opts.Legacy && len(data) > 0) || len(data)%bs == 0 {
		rec.NonTrivial(stat.FP(c.Opts.String(), data, c.Entry))
		rec.Class("nontrivial")
	}
	rec.Sample(map[string]interface{}{"opts": c.Opts.String(), "entry": c.Entry, "len": len(data), "zero": c.Zero, "frame": len(z), "blocks": fmt.Sprintf("%d raw / %d compressed", raw, comp)})
	return nil
}

func init() { register("C09", "C09/conformance", runC09) }

const c09Rule = "rapid-drawn (options x input x entry point): the C02 option matrix; inputs around the block size incl. empty and exact multiples, " +
	"random (stored raw) / zero / text / grammar contents, and inputs patched so that the XXH32 of the first block or of the whole content is 0; " +
	"entry = Writer.Write partition without Flush | Writer.ReadFrom from a fragmenting source | CompressingReader with drawn Read sizes. Oracle: the " +
	"independent strict frame parser accepts the bytes as exactly one frame whose header shows the options and whose content equals the input. " +
	"Pinned: incompressible 8 MiB and > 8 MiB legacy inputs. Non-trivial = >= 1 compressed block with a checksum, or a zero-hash / empty-stored-block / " +
	"legacy / exact-multiple edge class; distinct by hash(options, input, entry)."

func TestC09Pinned(t *testing.T) {
	stat.For("C09").SetRule(c09Rule)
	if shard != 0 {
		return
	}
	mk := func(o wopts, segs []gen.Seg, entry, zero string) c09Case {
		d := delivery{Mode: "write"}
		if entry == "readfrom" {
			d = delivery{Mode: "readfrom"}
		}
		return c09Case{Opts: o, Data: gen.Data{Segs: segs}, Entry: entry, Del: d, Zero: zero, RSize: []int{4096}}
	}
	for _, entry := range []string{"write", "readfrom", "creader"} {
		o := wopts{BS: 4, BlockSum: true, ContentSum: true, Size: true, Conc: 1}
		// zero-hash raw block and zero-hash content
		pinned(t, "C09", "C09/conformance", mk(o, []gen.Seg{{K: "rand", N: 65536 - 12, S: 3}}, entry, "block"), runC09)
		pinned(t, "C09", "C09/conformance", mk(o, []gen.Seg{{K: "rand", N: 65536 + 20, S: 4}}, entry, "block"), runC09)
		pinned(t, "C09", "C09/conformance", mk(o, []gen.Seg{{K: "text", N: 300 + 4, S: 4, P: 4}}, entry, "content"), runC09)
		// empty, exact multiples
		for _, n := range []int{0, 65536, 131072} {
			pinned(t, "C09", "C09/conformance", mk(o, []gen.Seg{{K: "text", N: n, S: 4, P: 3}}, entry, ""), runC09)
		}
	}
	// uniformly random symbols over a small alphabet, full blocks (see TestC02Pinned)
	for _, a := range []struct {
		alpha int
		level uint32
	}{{10, 0}, {12, 0}, {26, levels[5]}, {32, levels[9]}} {
		o := wopts{BS: 4, BlockSum: true, ContentSum: true, Conc: 1, Level: a.level}
		pinned(t, "C09", "C09/conformance", mk(o, []gen.Seg{{K: "text", N: 48 * 65536, S: uint64(a.alpha), P: a.alpha}}, "write", ""), runC09)
	}
	// full blocks whose compressed form is a few bytes smaller than the block (a random block ending in a repeat of 255..290 bytes:
	// the repeat just about pays for the length bytes of the literal run), with block checksums, followed by a second block
	found := map[int]bool{}
	for m := 200; m < 600 && len(found) < 5; m++ {
		segs := []gen.Seg{{K: "rand", N: 40000, S: 9}, {K: "copy", N: m, P: 39900, S: 1}, {K: "rand", N: 65536 - 40000 - m, S: 10}}
		blk := gen.Data{Segs: segs}.Build()
		dst := make([]byte, lz4.CompressBlockBound(len(blk)))
		n, err := lz4.CompressBlock(blk, dst, nil)
		if err != nil || n < 65536-5 || n >= 65536 || found[65536-n] {
			continue
		}
		found[65536-n] = true
		stat.For("C09").Class(fmt.Sprintf("frame/full-block-compressed-to-blocksize-%d", 65536-n))
		for _, o := range []wopts{{BS: 4, BlockSum: true, ContentSum: true, Conc: 1}, {BS: 4, BlockSum: true, Conc: 2}} {
			pinned(t, "C09", "C09/conformance", mk(o, append(segs, gen.Seg{K: "text", N: 500, S: 2, P: 4}), "write", ""), runC09)
			pinned(t, "C09", "C09/conformance", mk(o, append(segs, gen.Seg{K: "text", N: 500, S: 2, P: 4}), "creader", ""), runC09)
		}
	}
	if !found[1] || !found[2] || !found[3] {
		t.Fatalf("HARNESS PROBLEM: no full block compressing to 1, 2 and 3 bytes less than the block size was found (%v)", found)
	}
	// legacy: empty, small, incompressible exactly 8 MiB, incompressible > 8.36 MB (two blocks), compressible multi-block
	leg := wopts{BS: 7, Conc: 1, Legacy: true}
	for _, segs := range [][]gen.Seg{{}, {{K: "text", N: 100, S: 1, P: 4}}, {{K: "rand", N: 8 << 20, S: 9}}, {{K: "rand", N: 8<<20 + 70000, S: 10}}, {{K: "text", N: 8<<20 + 1, S: 2, P: 4}},
		// incompressible blocks whose worst-case compressed size straddles the 8 MiB buffer
		{{K: "rand", N: 8<<20 - 1, S: 11}}, {{K: "rand", N: 8355712, S: 12}}, {{K: "rand", N: 8355711, S: 13}}, {{K: "rand", N: 8<<20 + 8360000, S: 14}}, {{K: "rand", N: 8300000, S: 15}},
		// ... and with a compressible stretch at the end of the (almost) full block: the fast compressor then runs out of
		// room in the middle of a sequence instead of reporting "incompressible"
		{{K: "rand", N: 8<<20 - 8192, S: 16}, {K: "run", N: 8192, P: 0}, {K: "text", N: 1000, S: 3, P: 4}}, {{K: "rand", N: 8<<20 - 32768, S: 17}, {K: "run", N: 32768, P: 0}},
		{{K: "rand", N: 8<<20 - 4096, S: 18}, {K: "text", N: 4096, S: 4, P: 2}}, {{K: "rand", N: 8370000, S: 19}, {K: "run", N: 8<<20 - 8370000, P: 'a'}, {K: "rand", N: 8370000, S: 20}, {K: "run", N: 10000, P: 0}}} {
		pinned(t, "C09", "C09/conformance", mk(leg, segs, "write", ""), runC09)
		pinned(t, "C09", "C09/conformance", mk(leg, segs, "readfrom", ""), runC09)
	}
	// ... every length around the point where the compression bound of an incompressible last block crosses 8 MiB
	// (n + n/255 + 16 > 2^23 from n = 8355826 on)
	for n := 8355818; n <= 8355846; n++ {
		pinned(t, "C09", "C09/conformance", mk(leg, []gen.Seg{{K: "rand", N: n, S: uint64(n)}}, "write", ""), runC09)
	}
}

func TestC09(t *testing.T) {
	rec := stat.For("C09")
	rec.SetRule(c09Rule)
	rec.Require("nontrivial", "frame/header-checksum-byte==0", "writer/reused-after-2-frames", "frame/zero-hash-block+blocksum", "frame/zero-hash-content+contentsum", "frame/raw+compressed-blocks", "frame/legacy-nonempty", "entry/creader", "entry/readfrom", "input/empty", "input/k*bs")
	checkProp(t, "C09", "C09/conformance", pick(12000, 150000), drawC09, runC09)
}

// TestC09Huge (quick: sequential Writer only): a stream of more than 4 GiB through the Writer: the content
// checksum (and the size field) must still be what the specification designates once the
// total no longer fits 32 bits. The independent parser hashes and counts without retaining.
func TestC09Huge(t *testing.T) {
	rec := stat.For("C09")
	rec.SetRule(c09Rule)
	if shard != nshards-1 { // (the last shard: in the quick tier the other one runs the pinned cases)
		return
	}
	const total = uint64(1)<<32 + 4<<20 + 43
	concs := []int{1}
	if thorough() {
		concs = []int{1, 4}
	}
	for _, conc := range concs {
		var sink inst.Sink
		w := lz4.NewWriter(&sink)
		if err := w.Apply(lz4.BlockSizeOption(lz4.Block4Mb), lz4.ChecksumOption(true), lz4.SizeOption(total), lz4.ConcurrencyOption(conc)); err != nil {
			t.Fatalf("HARNESS: %v", err)
		}
		chunk := make([]byte, 1<<20)
		for i := range chunk {
			chunk[i] = byte(i >> 12) // long runs: compresses to a few KiB per block
		}
		left := total
		for left > 0 {
			n := uint64(len(chunk))
			if n > left {
				n = left
			}
			if _, err := w.Write(chunk[:n]); err != nil {
				judge(t, "C09", "C09/huge", conc, stat.Failf("C09/huge/write-fails", "%v", err))
			}
			left -= n
		}
		if err := w.Close(); err != nil {
			judge(t, "C09", "C09/huge", conc, stat.Failf("C09/huge/close-fails", "%v", err))
		}
		rec.Eval()
		f := ref.ParseFrameDiscard(sink.Buf, ref.Strict)
		if !f.OK() || f.Consumed != len(sink.Buf) || f.ContentLen != total {
			judge(t, "C09", "C09/huge", conc, stat.Failf("C09/huge/not-a-valid-frame/"+firstWords(f.Err, 3), "concurrency %d, %d content bytes, frame of %d bytes: reference parser: %q at %d (content length %d, consumed %d)", conc, total, len(sink.Buf), f.Err, f.ErrOff, f.ContentLen, f.Consumed))
		}
		rec.NonTrivial(stat.FP("huge", conc))
		rec.Class("frame/content>4GiB")
	}
}
