package props

import (
	"bytes"
	"fmt"
	"runtime/debug"
	"testing"

	lz4 "github.com/pierrec/lz4/v4"
	"pgregory.net/rapid"

	"verifharness/gen"
	"verifharness/ref"
	"verifharness/stat"
)

// C11: block compressors honour the destination-buffer contract.

func runC11(c compCase, rec *stat.Rec) *stat.Failure {
	src := c.Data.Build()
	return runC11With(c, src, rec)
}

func runC11With(c compCase, src []byte, rec *stat.Rec) *stat.Failure {
	rec.Eval()
	bound := lz4.CompressBlockBound(len(src))
	r := execCompress(c, src)
	kind := c.Comp[:2]
	shape := fmt.Sprintf("%s depth %d len(src)=%d len(dst)=%d cap-len=%d bound=%d", c.Comp, c.Depth, len(src), c.DstLen, c.Spare, bound)
	switch r.Status {
	case "harness":
		return stat.Failf("harness-problem", "%s", r.Detail)
	case "panic", "fault":
		return stat.Failf("C11/"+kind+"/"+r.Status, "%s: %s", shape, r.Detail)
	case "canary":
		return stat.Failf("C11/"+kind+"/writes-beyond-len(dst)", "%s: %s", shape, r.Detail)
	}
	if r.N > c.DstLen {
		return stat.Failf("C11/"+kind+"/n-exceeds-len(dst)", "%s: n=%d err=%v", shape, r.N, r.Err)
	}
	if r.N < 0 {
		return stat.Failf("C11/"+kind+"/negative-count", "%s: n=%d err=%v", shape, r.N, r.Err)
	}
	if c.DstLen >= bound && (r.N <= 0 || r.Err != nil) {
		return stat.Failf("C11/"+kind+"/fails-with-bound-sized-dst", "%s: n=%d err=%v", shape, r.N, r.Err)
	}
	if r.N > 0 {
		if r.Err != nil {
			return stat.Failf("C11/"+kind+"/positive-count-with-error", "%s: n=%d err=%v", shape, r.N, r.Err)
		}
		res := ref.DecodeBlock(r.Out, len(src), nil)
		if res.Kind != ref.OK || !bytes.Equal(res.Out, src) {
			return stat.Failf("C11/"+kind+"/positive-count-but-not-a-complete-block", "%s: n=%d: reference decode %s %s, %d of %d bytes, first difference at %d", shape, r.N, res.Kind, res.Why, len(res.Out), len(src), firstDiff(res.Out, src))
		}
		rec.Class("outcome/block")
	} else if r.Err != nil {
		rec.Class("outcome/(0,err)")
	} else {
		rec.Class("outcome/(0,nil)")
	}
	rec.Class(depthClass(c.Comp, c.Depth))
	if c.Spare > 0 {
		rec.Class("dst/spare-capacity")
	}
	switch {
	case c.DstLen == 0:
		rec.Class("dst/len=0")
	case c.DstLen < bound:
		rec.Class("dst/0<len<bound")
	default:
		rec.Class("dst/len>=bound")
	}
	if c.DstLen > 0 && c.DstLen < bound && c.Spare > 0 {
		rec.NonTrivial(stat.FP(src, c.DstLen, c.Spare, c.Comp, c.Depth))
		rec.Class("nontrivial")
	}
	return nil
}

func init() { register("C11", "C11/dstcontract", runC11) }

const c11Rule = "sources from the segment grammar (<= 4 KiB mostly, compressible and not) x destination lengths: every length 0..bound+2 when the bound is <= 400 (quick) / 1500 (thorough), " +
	"else {0,1,2, n/2, compressed size -2..+2, bound-2..bound+2, 24 drawn} x spare capacity {0,1,40,4096} x {fast, HC} x entry point (object / pooled function). The destination lives " +
	"in a guard arena: canaries in dst[len:cap] and before dst, capacity ending at a PROT_NONE page. Oracle: no panic/fault, canaries intact, 0 <= n <= len(dst), len(dst) >= bound => " +
	"n > 0 and nil error, n > 0 => nil error and the reference decodes dst[:n] to the whole source. Non-trivial = 0 < len(dst) < bound with spare capacity; distinct by hash(source, len(dst), cap, compressor)."

// TestC11Huge: sources larger than any frame block (the length of a 9 MiB literal run takes more than 32 KiB to write),
// destinations around the source length, the compressed size and the bound.
func TestC11Huge(t *testing.T) {
	rec := stat.For("C11")
	rec.SetRule(c11Rule)
	datas := []gen.Data{
		{Segs: []gen.Seg{{K: "rand", N: 9 << 20, S: 41}}},
		{Segs: []gen.Seg{{K: "rand", N: 9 << 20, S: 42}, {K: "copy", N: 300, P: 5000, S: 1}, {K: "rand", N: 40, S: 3}}},
		{Segs: []gen.Seg{{K: "rand", N: 100, S: 45}, {K: "run", N: 9 << 20, P: 0}, {K: "rand", N: 30, S: 46}}}, // one match of 9 MiB
		{Segs: []gen.Seg{{K: "period", N: 9<<20 + 3, S: 47, P: 7}, {K: "rand", N: 30, S: 48}}},                 // ... at offset 7
		{Segs: []gen.Seg{{K: "text", N: 5 << 20, S: 43, P: 4}, {K: "rand", N: 5 << 20, S: 44}}},
	}
	if !thorough() {
		datas = datas[:4]
	}
	i := 0
	for _, d := range datas {
		src := d.Build()
		bound := lz4.CompressBlockBound(len(src))
		for _, comp := range []string{"fast-obj", "hc-pkg"} {
			i++
			if i%nshards != shard {
				continue
			}
			full := make([]byte, bound)
			var bc blockComps
			cn, _ := bc.compress(comp, 1, src, full)
			for _, l := range []int{0, len(src) / 2, len(src) - 1, len(src), cn - 1, cn, bound - 1, bound, bound + 1} {
				if l < 0 {
					continue
				}
				cc := compCase{Data: d, Comp: comp, Depth: 1, DstLen: l, Spare: 64}
				journal("C11", "C11/dstcontract", cc)
				judge(t, "C11", "C11/dstcontract", cc, safelyC11(cc, src, rec))
				rec.Class("huge-source")
			}
		}
	}
}

func TestC11(t *testing.T) {
	rec := stat.For("C11")
	rec.SetRule(c11Rule)
	rec.Require("nontrivial", "outcome/block", "outcome/(0,err)", "outcome/(0,nil)", "dst/len=0", "dst/len>=bound", "comp/fast", "comp/hc-depth0")
	n := pick(4000, 120000)
	n = (n + nshards - 1) / nshards
	setRapid(n, "C11/dstcontract")
	sampled := 0
	rapid.Check(t, func(rt *rapid.T) {
		var c compCase
		c.Comp = rapid.SampledFrom([]string{"fast-obj", "fast-pkg", "hc-obj", "hc-pkg"}).Draw(rt, "comp")
		if rapid.IntRange(0, 5).Draw(rt, "big?") == 0 {
			c.Data = gen.DrawData(rt, pick(100<<10, 600<<10), "src")
		} else {
			c.Data = drawTailData(rt, 4096)
		}
		if c.Comp[:2] == "hc" {
			c.Depth = rapid.SampledFrom(hcDepths).Draw(rt, "depth")
			if n := c.Data.Len(); n > 4096 && effDepth(c.Depth)*n > 1<<24 {
				c.Depth = uint32(maxI(1, (1<<24)/n))
			}
		}
		c.Spare = rapid.SampledFrom([]int{0, 1, 40, 4096}).Draw(rt, "spare")
		src := c.Data.Build()
		bound := lz4.CompressBlockBound(len(src))
		var lens []int
		if bound <= pick(400, 1500) {
			for l := 0; l <= bound+2; l++ {
				lens = append(lens, l)
			}
		} else {
			full := make([]byte, bound)
			var bc blockComps
			cn, _ := bc.compress(c.Comp, c.Depth, src, full)
			lens = []int{0, 1, 2, len(src) / 2, len(src), bound - 2, bound - 1, bound, bound + 1, bound + 2}
			for d := -2; d <= 2; d++ {
				if cn+d >= 0 {
					lens = append(lens, cn+d)
				}
			}
			for i := 0; i < 24; i++ {
				lens = append(lens, rapid.IntRange(0, bound).Draw(rt, "dstlen"))
			}
		}
		for _, l := range lens {
			cc := c
			cc.DstLen = l
			judge(rt, "C11", "C11/dstcontract", cc, safelyC11(cc, src, rec))
		}
		if sampled < 10 {
			sampled++
			rec.Sample(map[string]interface{}{"comp": c.Comp, "depth": c.Depth, "len(src)": len(src), "src": c.Data.Describe(), "spare": c.Spare, "destination lengths tried": len(lens), "bound": bound})
		}
	})
}

func safelyC11(c compCase, src []byte, rec *stat.Rec) (f *stat.Failure) {
	defer func() {
		if r := recover(); r != nil {
			f = panicFailure(rec.ID, r, debug.Stack())
		}
	}()
	return runC11With(c, src, rec)
}
