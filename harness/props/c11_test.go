package props

import (
	"bytes"
	"fmt"
	"runtime/debug"
	"strconv"
	"testing"

	lz4 "github.com/pierrec/lz4/v4"
	"pgregory.net/rapid"

	"verifharness/gen"
	"verifharness/ref"
	"verifharness/stat"
)

// C11: block compressors honour the destination-buffer contract.

func runC11(c compCase, rec *stat.Rec) *stat.Failure {
	src := c.Data.Build()
	return runC11With(c, src, rec)
}

func runC11With(c compCase, src []byte, rec *stat.Rec) *stat.Failure {
	rec.Eval()
	bound := lz4.CompressBlockBound(len(src))
	r := execCompress(c, src)
	kind := c.Comp[:2]
	shape := fmt.Sprintf("%s depth %d len(src)=%d len(dst)=%d cap-len=%d bound=%d", c.Comp, c.Depth, len(src), c.DstLen, c.Spare, bound)
	switch r.Status {
	case "harness":
		return stat.Failf("harness-problem", "%s", r.Detail)
	case "panic", "fault":
		return stat.Failf("C11/"+kind+"/"+r.Status, "%s: %s", shape, r.Detail)
	case "canary":
		return stat.Failf("C11/"+kind+"/writes-beyond-len(dst)", "%s: %s", shape, r.Detail)
	}
	if r.N > c.DstLen {
		return stat.Failf("C11/"+kind+"/n-exceeds-len(dst)", "%s: n=%d err=%v", shape, r.N, r.Err)
	}
	if r.N < 0 {
		return stat.Failf("C11/"+kind+"/negative-count", "%s: n=%d err=%v", shape, r.N, r.Err)
	}
	if c.DstLen >= bound && (r.N <= 0 || r.Err != nil) {
		return stat.Failf("C11/"+kind+"/fails-with-bound-sized-dst", "%s: n=%d err=%v", shape, r.N, r.Err)
	}
	if r.N > 0 {
		if r.Err != nil {
			return stat.Failf("C11/"+kind+"/positive-count-with-error", "%s: n=%d err=%v", shape, r.N, r.Err)
		}
		res := ref.DecodeBlock(r.Out, len(src), nil)
		if res.Kind != ref.OK || !bytes.Equal(res.Out, src) {
			return stat.Failf("C11/"+kind+"/positive-count-but-not-a-complete-block", "%s: n=%d: reference decode %s %s, %d of %d bytes, first difference at %d", shape, r.N, res.Kind, res.Why, len(res.Out), len(src), firstDiff(res.Out, src))
		}
		rec.Class("outcome/block")
	} else if r.Err != nil {
		rec.Class("outcome/(0,err)")
	} else {
		rec.Class("outcome/(0,nil)")
	}
	rec.Class(depthClass(c.Comp, c.Depth))
	if c.Spare > 0 {
		rec.Class("dst/spare-capacity")
	}
	switch {
	case c.DstLen == 0:
		rec.Class("dst/len=0")
	case c.DstLen < bound:
		rec.Class("dst/0<len<bound")
	default:
		rec.Class("dst/len>=bound")
	}
	if c.DstLen > 0 && c.DstLen < bound && c.Spare > 0 {
		rec.NonTrivial(stat.FP(src, c.DstLen, c.Spare, c.Comp, c.Depth))
		rec.Class("nontrivial")
	}
	return nil
}

func init() { register("C11", "C11/dstcontract", runC11) }

const c11Rule = "sources from the segment grammar (<= 4 KiB mostly, compressible and not) x destination lengths: every length 0..bound+2 when the bound is <= 400 (quick) / 1500 (thorough), " +
	"else {0,1,2, n/2, compressed size -2..+2, bound-2..bound+2, 24 drawn} x spare capacity {0,1,40,4096} x {fast, HC} x entry point (object / pooled function). The destination lives " +
	"in a guard arena: canaries in dst[len:cap] and before dst, capacity ending at a PROT_NONE page. Oracle: no panic/fault, canaries intact, 0 <= n <= len(dst), len(dst) >= bound => " +
	"n > 0 and nil error, n > 0 => nil error and the reference decodes dst[:n] to the whole source. Non-trivial = 0 < len(dst) < bound with spare capacity; distinct by hash(source, len(dst), cap, compressor)."

// TestC11Huge: sources larger than any frame block (the length of a 9 MiB literal run takes more than 32 KiB to write),
// destinations around the source length, the compressed size and the bound.
func TestC11Huge(t *testing.T) {
	rec := stat.For("C11")
	rec.SetRule(c11Rule)
	datas := []gen.Data{
		{Segs: []gen.Seg{{K: "rand", N: 9 << 20, S: 41}}},
		{Segs: []gen.Seg{{K: "rand", N: 9 << 20, S: 42}, {K: "run", N: 65536, P: 0}, {K: "rand", N: 40, S: 3}}}, // (a match the sparse probes after a long literal run still find)
		{Segs: []gen.Seg{{K: "rand", N: 100, S: 45}, {K: "run", N: 9 << 20, P: 0}, {K: "rand", N: 30, S: 46}}},  // one match of 9 MiB
		{Segs: []gen.Seg{{K: "period", N: 9<<20 + 3, S: 47, P: 7}, {K: "rand", N: 30, S: 48}}},                  // ... at offset 7
		{Segs: []gen.Seg{{K: "text", N: 5 << 20, S: 43, P: 4}, {K: "rand", N: 5 << 20, S: 44}}},
	}
	if !thorough() {
		datas = datas[:4]
	}
	// a literal run of 600 KiB, then a long match: every destination length from 2000 below the compressed size to 8 above it
	{
		d := gen.Data{Segs: []gen.Seg{{K: "rand", N: 600 << 10, S: 49}, {K: "run", N: 65536, P: 0}, {K: "rand", N: 32, S: 50}}}
		src := d.Build()
		if shard == 0 {
			var bc blockComps
			full := make([]byte, lz4.CompressBlockBound(len(src)))
			cn, _ := bc.compress("fast-obj", 0, src, full)
			for l := cn - 2000; l <= cn+8; l++ {
				cc := compCase{Data: d, Comp: "fast-obj", DstLen: l, Spare: 64}
				judge(t, "C11", "C11/dstcontract", cc, safelyC11(cc, src, rec))
			}
			rec.Class("huge-source/dense-band-below-the-compressed-size")
		}
	}
	i := 0
	for _, d := range datas {
		src := d.Build()
		bound := lz4.CompressBlockBound(len(src))
		for _, comp := range []string{"fast-obj", "hc-pkg"} {
			i++
			if i%nshards != shard {
				continue
			}
			full := make([]byte, bound)
			var bc blockComps
			cn, _ := bc.compress(comp, 1, src, full)
			lens := []int{0, len(src) / 2, len(src) - 1, len(src), cn - 1, cn, bound - 1, bound, bound + 1}
			// a band below the compressed size (an estimate of the space a long literal run needs that is a little short
			// shows only there)
			for d := 2; d < 3000; d += 37 {
				lens = append(lens, cn-d)
			}
			for _, l := range lens {
				if l < 0 {
					continue
				}
				cc := compCase{Data: d, Comp: comp, Depth: 1, DstLen: l, Spare: 64}
				journal("C11", "C11/dstcontract", cc)
				judge(t, "C11", "C11/dstcontract", cc, safelyC11(cc, src, rec))
				rec.Class("huge-source")
			}
		}
	}
}

// TestC11Above4GiB (thorough, 64-bit only): a source of 4 GiB + 128 KiB (zeros, never touched except for three short markers: a
// 100-byte group at 1000, its first four bytes again exactly 2^32 bytes later followed by something else, and the whole group
// 300 bytes after that) into a destination of the bound: positions that are congruent modulo 2^32 must not be taken for close.
// The block is checked sequence by sequence against the source.
func TestC11Above4GiB(t *testing.T) {
	rec := stat.For("C11")
	rec.SetRule(c11Rule)
	if !thorough() || strconv.IntSize < 64 || shard != nshards-1 {
		return
	}
	shift := uint(32)
	gib4 := int(int64(1) << shift)
	src := make([]byte, gib4+128<<10)
	marker := make([]byte, 100)
	gen.Fill(marker, 51)
	for i := range marker {
		marker[i] |= 1
	}
	copy(src[1000:], marker)
	copy(src[gib4+1000:], marker[:4])
	src[gib4+1004] = ^marker[4]
	copy(src[gib4+1300:], marker)
	dst := make([]byte, lz4.CompressBlockBound(len(src)))
	for _, comp := range []string{"hc-obj", "fast-obj"} {
		var bc blockComps
		rec.Eval()
		var n int
		var err error
		f := safelyF(func() *stat.Failure { n, err = bc.compress(comp, uint32(lz4.Level1), src, dst); return nil })
		if f == nil && (err != nil || n <= 0 || n > len(dst)) {
			f = stat.Failf("C11/"+comp[:2]+"/fails-with-bound-sized-dst", "%s, source of 2^32+%d bytes, len(dst)=bound: n=%d err=%v", comp, len(src)-gib4, n, err)
		}
		if f == nil {
			if why := ref.WalkBlockAgainst(dst[:n], src); why != "" {
				f = stat.Failf("C11/"+comp[:2]+"/positive-count-but-not-a-complete-block", "%s, source of 2^32+%d bytes, n=%d: %s", comp, len(src)-gib4, n, why)
			}
		}
		judge(t, "C11", "C11/above4GiB", comp, f)
		rec.Class("source-above-4GiB")
		rec.NonTrivial(stat.FP("above4g", comp))
	}
}

func TestC11(t *testing.T) {
	rec := stat.For("C11")
	rec.SetRule(c11Rule)
	rec.Require("nontrivial", "outcome/block", "outcome/(0,err)", "outcome/(0,nil)", "dst/len=0", "dst/len>=bound", "comp/fast", "comp/hc-depth0")
	n := pick(4000, 120000)
	n = (n + nshards - 1) / nshards
	setRapid(n, "C11/dstcontract")
	sampled := 0
	rapid.Check(t, func(rt *rapid.T) {
		var c compCase
		c.Comp = rapid.SampledFrom([]string{"fast-obj", "fast-pkg", "hc-obj", "hc-pkg"}).Draw(rt, "comp")
		if rapid.IntRange(0, 5).Draw(rt, "big?") == 0 {
			c.Data = gen.DrawData(rt, pick(100<<10, 600<<10), "src")
		} else {
			c.Data = drawTailData(rt, 4096)
		}
		if c.Comp[:2] == "hc" {
			c.Depth = rapid.SampledFrom(hcDepths).Draw(rt, "depth")
			if n := c.Data.Len(); n > 4096 && effDepth(c.Depth)*n > 1<<24 {
				c.Depth = uint32(maxI(1, (1<<24)/n))
			}
		}
		c.Spare = rapid.SampledFrom([]int{0, 1, 40, 4096}).Draw(rt, "spare")
		src := c.Data.Build()
		bound := lz4.CompressBlockBound(len(src))
		var lens []int
		if bound <= pick(400, 1500) {
			for l := 0; l <= bound+2; l++ {
				lens = append(lens, l)
			}
		} else {
			full := make([]byte, bound)
			var bc blockComps
			cn, _ := bc.compress(c.Comp, c.Depth, src, full)
			lens = []int{0, 1, 2, len(src) / 2, len(src), bound - 2, bound - 1, bound, bound + 1, bound + 2}
			for d := -2; d <= 2; d++ {
				if cn+d >= 0 {
					lens = append(lens, cn+d)
				}
			}
			for i := 0; i < 24; i++ {
				lens = append(lens, rapid.IntRange(0, bound).Draw(rt, "dstlen"))
			}
		}
		for _, l := range lens {
			cc := c
			cc.DstLen = l
			judge(rt, "C11", "C11/dstcontract", cc, safelyC11(cc, src, rec))
		}
		if sampled < 10 {
			sampled++
			rec.Sample(map[string]interface{}{"comp": c.Comp, "depth": c.Depth, "len(src)": len(src), "src": c.Data.Describe(), "spare": c.Spare, "destination lengths tried": len(lens), "bound": bound})
		}
	})
}

func safelyC11(c compCase, src []byte, rec *stat.Rec) (f *stat.Failure) {
	defer func() {
		if r := recover(); r != nil {
			f = panicFailure(rec.ID, r, debug.Stack())
		}
	}()
	return runC11With(c, src, rec)
}
