package props

import (
	"bytes"
	"fmt"
	"runtime/debug"
	"testing"

	lz4 "github.com/pierrec/lz4/v4"
	"pgregory.net/rapid"

	"verifharness/gen"
	"verifharness/inst"
	"verifharness/ref"
	"verifharness/stat"
)

// Shared by C10 and C11: one block compression with the destination in a guard arena.

type compCase struct {
	Data   gen.Data `json:"data"`
	Comp   string   `json:"comp"` // fast-obj fast-pkg hc-obj hc-pkg
	Depth  uint32   `json:"depth"`
	DstLen int      `json:"dstlen"`
	Spare  int      `json:"spare"`
}

type compResult struct {
	Status string // ok | panic | fault | canary
	N      int
	Err    error
	Out    []byte // dst[:N] when 0 < N <= len(dst)
	Detail string
}

func execCompress(c compCase, src []byte) (res compResult) {
	if err := arenas(); err != nil {
		return compResult{Status: "harness", Detail: err.Error()}
	}
	const lead = 4096
	var dst, before, after []byte
	if c.DstLen+c.Spare+8192 > arenaDst {
		// larger than the arena: a heap slice with canaries in front of dst and in its spare capacity (at least 64 bytes of it)
		spare := c.Spare
		if spare < 64 {
			spare = 64
		}
		back := make([]byte, lead+c.DstLen+spare)
		before = back[:lead]
		dst = back[lead : lead+c.DstLen : lead+c.DstLen+spare]
		after = back[lead+c.DstLen:]
	} else {
		arenaMu.Lock()
		defer arenaMu.Unlock()
		dst = aDst.End(c.DstLen, c.Spare)
		reg := aDst.Region()
		start := len(reg) - c.DstLen - c.Spare
		before = reg[start-lead : start]
		after = dst[c.DstLen : c.DstLen+c.Spare]
	}
	inst.FillCanary(before)
	inst.FillCanary(after)
	for i := range dst {
		dst[i] = 0xEE
	}
	old := debug.SetPanicOnFault(true)
	defer debug.SetPanicOnFault(old)
	defer func() {
		if r := recover(); r != nil {
			res = compResult{Status: "panic", Detail: fmt.Sprint(r)}
			if _, ok := r.(interface{ Addr() uintptr }); ok {
				res.Status = "fault"
			}
		}
	}()
	var bc blockComps
	n, err := bc.compress(c.Comp, c.Depth, src, dst)
	res = compResult{Status: "ok", N: n, Err: err}
	if i := inst.CheckCanary(after); i >= 0 {
		return compResult{Status: "canary", N: n, Err: err, Detail: fmt.Sprintf("dst[len+%d] (spare capacity) was modified; n=%d err=%v", i, n, err)}
	}
	if i := inst.CheckCanary(before); i >= 0 {
		return compResult{Status: "canary", N: n, Err: err, Detail: fmt.Sprintf("byte %d before dst was modified", i-len(before))}
	}
	if n > 0 && n <= len(dst) {
		res.Out = append([]byte(nil), dst[:n]...)
	}
	return res
}

// ---------------------------------------------------------------- C10

func runC10(c compCase, rec *stat.Rec) *stat.Failure {
	src := c.Data.Build()
	rec.Eval()
	r := execCompress(c, src)
	if r.Status == "harness" {
		return stat.Failf("harness-problem", "%s", r.Detail)
	}
	if r.Status != "ok" || r.N > c.DstLen {
		rec.Class("skipped/destination-contract-failure-belongs-to-C11")
		return nil
	}
	if r.N <= 0 {
		rec.Class("outcome/no-block-produced")
		return nil
	}
	kind := c.Comp[:2]
	if why := ref.StrictValidate(r.Out, len(src)); why != "" {
		return stat.Failf("C10/"+kind+"/not-strictly-valid/"+firstWords(why, 4), "%s depth %d len(src)=%d len(dst)=%d n=%d: %s", c.Comp, c.Depth, len(src), c.DstLen, r.N, why)
	}
	res := ref.DecodeBlock(r.Out, len(src), nil)
	if !bytes.Equal(res.Out, src) {
		return stat.Failf("C10/"+kind+"/strict-decode-differs", "%s depth %d len(src)=%d n=%d: first difference at %d", c.Comp, c.Depth, len(src), r.N, firstDiff(res.Out, src))
	}
	// "independent decoders decode it": the reference library itself (when present on this machine), into a destination of
	// exactly len(src) bytes
	if n, out, ok := refLibDecode(r.Out, len(src), nil); ok {
		rec.Class("reference-library/decoded-the-block")
		if n != len(src) || !bytes.Equal(out, src) {
			return stat.Failf("C10/"+kind+"/reference-library-does-not-decode-the-block", "%s depth %d len(src)=%d n=%d: LZ4_decompress_safe into exactly len(src) bytes returns %d", c.Comp, c.Depth, len(src), r.N, n)
		}
	}
	matches := classifyBlock(rec, "", res.Seqs)
	rec.Class(srcLenClass(len(src)), depthClass(c.Comp, c.Depth))
	if c.DstLen < lz4.CompressBlockBound(len(src)) {
		rec.Class("dst/below-bound(partial-success)")
	}
	// non-trivial: the last match ends within 32 bytes of the end of the source
	for i := len(res.Seqs) - 1; i >= 0; i-- {
		if s := res.Seqs[i]; s.HasMatch {
			if end := s.OutPos + s.MatchLen; len(src)-end <= 32 {
				rec.NonTrivial(stat.FP(src, c.Comp, c.Depth, c.DstLen))
				rec.Class("nontrivial")
				rec.Class(fmt.Sprintf("last-match-ends-%02d-before-end", len(src)-end))
			}
			break
		}
	}
	rec.Sample(map[string]interface{}{"comp": c.Comp, "depth": c.Depth, "len(src)": len(src), "src": c.Data.Describe(), "len(dst)": c.DstLen, "n": r.N, "matches": matches})
	return nil
}

// drawTailData draws sources whose best match would run into the last 5 or 12 bytes.
func drawTailData(t *rapid.T, maxLen int) gen.Data {
	switch rapid.IntRange(0, 6).Draw(t, "tailkind") {
	case 0:
		return gen.Data{Segs: []gen.Seg{{K: "run", N: rapid.IntRange(0, 600).Draw(t, "n"), P: rapid.SampledFrom([]int{0, 'a'}).Draw(t, "b")}}}
	case 1:
		p := rapid.SampledFrom([]int{1, 2, 3, 4, 5, 6, 7, 8, 12, 13, 16}).Draw(t, "period")
		k := rapid.IntRange(1, 80).Draw(t, "reps")
		return gen.Data{Segs: []gen.Seg{{K: "period", N: p*k + rapid.SampledFrom([]int{0, 0, 1, 4, 5, 11, 12, 13}).Draw(t, "extra"), S: rapid.Uint64().Draw(t, "seed"), P: p}}}
	case 2:
		// random head, then a copy that runs exactly to the end (or stops 0..14 bytes short)
		head := rapid.IntRange(4, 300).Draw(t, "head")
		cp := rapid.IntRange(4, 300).Draw(t, "copy")
		tail := rapid.IntRange(0, 14).Draw(t, "tail")
		return gen.Data{Segs: []gen.Seg{{K: "rand", N: head, S: rapid.Uint64().Draw(t, "seed")}, {K: "copy", N: cp, P: rapid.IntRange(1, head).Draw(t, "dist"), S: 1}, {K: "rand", N: tail, S: rapid.Uint64().Draw(t, "tailseed")}}}
	case 3:
		n := rapid.IntRange(12, 40).Draw(t, "n")
		return gen.Data{Segs: []gen.Seg{{K: "text", N: n, S: rapid.Uint64().Draw(t, "seed"), P: 2}}}
	case 4:
		// a repeat planted at the edge of the 64 KiB window (offsets 65534..65537 must come out as 1..65535 or not at all)
		dist := rapid.SampledFrom([]int{65534, 65535, 65536, 65536, 65537}).Draw(t, "edge")
		head := dist + rapid.IntRange(0, 40).Draw(t, "head+")
		return gen.Data{Segs: []gen.Seg{{K: "rand", N: head, S: rapid.Uint64().Draw(t, "seed")}, {K: "copy", N: rapid.SampledFrom([]int{4, 8, 19, 300, 70000}).Draw(t, "copy"), P: dist, S: 1},
			{K: "rand", N: rapid.IntRange(0, 30).Draw(t, "tail"), S: rapid.Uint64().Draw(t, "tailseed")}}}
	default:
		return gen.DrawData(t, maxLen, "src")
	}
}

func drawC10(t *rapid.T) compCase {
	var c compCase
	c.Comp = rapid.SampledFrom([]string{"fast-obj", "fast-pkg", "hc-obj", "hc-pkg"}).Draw(t, "comp")
	c.Data = drawTailData(t, pick(256<<10, 1<<20))
	if c.Comp[:2] == "hc" {
		c.Depth = rapid.SampledFrom(hcDepths).Draw(t, "depth")
		if n := c.Data.Len(); n > 4096 && effDepth(c.Depth)*n > pick(1<<25, 1<<28) {
			c.Depth = uint32(maxI(1, pick(1<<25, 1<<28)/n))
		}
	}
	bound := lz4.CompressBlockBound(c.Data.Len())
	switch rapid.IntRange(0, 4).Draw(t, "dstclass") {
	case 0, 1:
		c.DstLen = bound
	case 2:
		c.DstLen = bound + rapid.IntRange(0, 8).Draw(t, "extra")
	default:
		c.DstLen = rapid.IntRange(0, bound).Draw(t, "dstlen")
	}
	c.Spare = rapid.SampledFrom([]int{0, 8}).Draw(t, "spare")
	return c
}

func maxI(a, b int) int {
	if a > b {
		return a
	}
	return b
}

const c10Rule = "sources weighted towards long runs, periodic data whose period divides the length (+0/1/4/5/11/12/13 extra bytes), random data followed by a copy that runs to " +
	"0..14 bytes before the end, 12..40-byte low-entropy texts, plus the C01 grammar; all four compressor entry points, HC depths as C01; destination = bound, bound+k or any " +
	"length 0..bound (partial successes). Pinned: every length 12..40 x 5 repetitive contents x every compressor. Oracle whenever n > 0: the independent strict validator (offsets " +
	"1..65535 within the output, final sequence literals-only, last 5 bytes literals, last match starts >= 12 bytes before the end, no match below 13 bytes) and the strict " +
	"reference decode equals the source. Non-trivial = the last match ends within 32 bytes of the end; distinct by hash(source, compressor, depth, len(dst)). Long-lived objects (pinned regimes): targets compressed exactly 255/256/257/65535/65536/65537 calls after nearly identical inputs; after 2^31, 2^32, 2^32+2^31, 2^33 bytes (minus 64 or 4096) through the same object; single sources of 9 MiB of random bytes."

func TestC10Pinned(t *testing.T) {
	stat.For("C10").SetRule(c10Rule)
	for n := 0; n <= 48; n++ {
		for _, seg := range []gen.Seg{{K: "run", N: n, P: 0}, {K: "period", N: n, S: 1, P: 2}, {K: "period", N: n, S: 2, P: 3}, {K: "period", N: n, S: 3, P: 4}, {K: "text", N: n, S: 4, P: 2}} {
			for _, comp := range []string{"fast-obj", "fast-pkg", "hc-obj", "hc-pkg"} {
				for _, d := range []uint32{0, 1} {
					if comp[:2] != "hc" && d != 0 {
						continue
					}
					data := gen.Data{Segs: []gen.Seg{seg}}
					pinned(t, "C10", "C10/strict", compCase{Data: data, Comp: comp, Depth: d, DstLen: lz4.CompressBlockBound(n)}, runC10)
				}
			}
		}
	}
}

func TestC10(t *testing.T) {
	rec := stat.For("C10")
	rec.SetRule(c10Rule)
	rec.Require("nontrivial", "block/max-offset>=65000", "dst/below-bound(partial-success)", "last-match-ends-07-before-end", "last-match-ends-14-before-end", "comp/hc-depth0", "comp/fast")
	checkProp(t, "C10", "C10/strict", pick(120000, 3000000), drawC10, runC10)
}

func init() { register("C10", "C10/strict", runC10) }
