package props

import (
	"bytes"
	"fmt"
	"io"
	"runtime/debug"
	"sort"
	"testing"

	"pgregory.net/rapid"

	"verifharness/gen"
	"verifharness/ref"
	"verifharness/stat"
)

// C06: truncated frames are never presented as complete.

type c06Case struct {
	Opts wopts    `json:"opts"`
	Data gen.Data `json:"data"`
	Del  delivery `json:"delivery"`
	Cut  int      `json:"cut"` // prefix length 1..len-1
	R    rcfg     `json:"reader"`
	Skip []int    `json:"skip,omitempty"` // lengths of skippable frames placed before the frame (cuts inside them count too)
}

type c06Frame struct {
	z, data []byte
	fr      *ref.Frame
}

func buildC06Frame(c c06Case) (*c06Frame, *stat.Failure) {
	data := c.Data.Build()
	z, f := emit(c.Opts, data, "write", c.Del, nil)
	if f != nil {
		return nil, stat.Failf("C06/cannot-build-frame", "%s", f.Msg)
	}
	if len(c.Skip) > 0 {
		var pre []byte
		for i, n := range c.Skip {
			pre = append(pre, byte(0x50+(i*5+n)%16), 0x2A, 0x4D, 0x18, byte(n), byte(n>>8), byte(n>>16), byte(n>>24))
			junk := make([]byte, n)
			gen.Fill(junk, uint64(n))
			pre = append(pre, junk...)
		}
		z = append(pre, z...)
	}
	fr := ref.ParseFrame(z, ref.Lenient)
	if !fr.OK() || !bytes.Equal(fr.Content, data) {
		return nil, stat.Failf("C06/frame-not-valid-before-cutting", "%s: %s (this belongs to C09)", c.Opts, fr.Err)
	}
	return &c06Frame{z: z, data: data, fr: fr}, nil
}

// fieldAt returns the kind of the field that contains (or starts at) offset cut, and how many of its bytes survive.
func fieldAt(fr *ref.Frame, cut int) (string, int) {
	for _, f := range fr.Fields {
		if cut >= f.Off && cut < f.Off+f.Len {
			return f.Kind, cut - f.Off
		}
	}
	return "end", 0
}

func runC06Cut(c c06Case, fz *c06Frame, rec *stat.Rec) *stat.Failure {
	if c.Cut <= 0 || c.Cut >= len(fz.z) {
		return nil
	}
	kind, have := fieldAt(fz.fr, c.Cut)
	if c.Opts.Legacy && have == 0 && (kind == "lbsize" || kind == "end") {
		rec.Class("skipped/legacy-cut-on-block-boundary")
		return nil
	}
	if have == 0 && (kind == "magic" || kind == "lmagic" || kind == "skipmagic") {
		// the prefix ends exactly where a frame would begin: it holds complete skippable frames and no (part of a) data
		// frame, so nothing is cut short; the statement starts after the first byte of the frame
		rec.Class("skipped/cut-on-a-frame-boundary")
		return nil
	}
	rec.Eval()
	res := readAll(fz.z[:c.Cut], c.R, nil)
	mode := fmt.Sprintf("conc>1=%v/writeto=%v", concOf(c.R.Conc) > 1, c.R.WriteTo)
	where := fmt.Sprintf("cut-before-%s", kind)
	if have > 0 {
		where = fmt.Sprintf("cut-inside-%s", kind)
	}
	if c.Opts.Legacy {
		where = "legacy/" + where
	}
	if res.Err == nil {
		return stat.Failf("C06/truncated-frame-read-as-complete/"+where, "%s; reader %+v: frame of %d bytes cut at %d (%d bytes of field %q present): clean end of stream after %d of %d content bytes",
			c.Opts, c.R, len(fz.z), c.Cut, have, kind, len(res.Out), len(fz.data))
	}
	if !bytes.HasPrefix(fz.data, res.Out) {
		return stat.Failf("C06/delivered-bytes-not-a-prefix/"+mode, "%s; reader %+v: cut at %d: %d bytes delivered, first difference at %d (error %v)", c.Opts, c.R, c.Cut, len(res.Out), firstDiff(res.Out, fz.data), res.Err)
	}
	rec.Class(fmt.Sprintf("cut/%s/%s", kind, map[bool]string{true: "inside", false: "zero-bytes-left"}[have > 0]), "reader/"+mode)
	rec.NonTrivial(stat.FP(fz.z, c.Cut, fmt.Sprint(c.R)))
	return nil
}

func runC06(c c06Case, rec *stat.Rec) *stat.Failure {
	fz, f := buildC06Frame(c)
	if f != nil {
		return f
	}
	return runC06Cut(c, fz, rec)
}

func init() { register("C06", "C06/cut", runC06) }

var c06Readers = []rcfg{
	{Conc: 1, Sizes: []int{64 << 20}}, {Conc: 1, Sizes: []int{7}, Seeker: true}, {Conc: 1, WriteTo: true},
	{Conc: 2, Sizes: []int{4095}}, {Conc: 4, WriteTo: true, Seeker: true}, {Conc: 4, Sizes: []int{64 << 20}},
}

// cutsFor lists the prefix lengths explored for a frame: all of them for small frames,
// every structural boundary +-3 plus sampled interior points for large ones.
func cutsFor(fr *ref.Frame, n int, t *rapid.T) []int {
	// (every failed read of a legacy frame costs two fresh 8 MiB buffers, so legacy frames get the
	// boundary+sample treatment unless they are tiny)
	if (!fr.Legacy && n <= pick(1500, 4096)) || (fr.Legacy && n <= pick(40, 300)) {
		cuts := make([]int, 0, n)
		for i := 1; i < n; i++ {
			cuts = append(cuts, i)
		}
		return cuts
	}
	set := map[int]bool{}
	for _, f := range fr.Fields {
		for d := -3; d <= 3; d++ {
			for _, p := range []int{f.Off + d, f.Off + f.Len + d} {
				if p >= 1 && p < n {
					set[p] = true
				}
			}
		}
	}
	for p := range bufferSizedCuts(fr, n) {
		set[p] = true
	}
	for i := 0; i < 64; i++ {
		set[rapid.IntRange(1, n-1).Draw(t, "interior")] = true
	}
	cuts := make([]int, 0, len(set))
	for p := range set {
		cuts = append(cuts, p)
	}
	sort.Ints(cuts)
	return cuts
}

// bufferSizedCuts: inside every field larger than 64 KiB, the offsets 2^k (+-1), k >= 16: where a reader that fills a
// block-sized or pooled buffer first and reads the rest separately would see a read of zero bytes.
func bufferSizedCuts(fr *ref.Frame, n int) map[int]bool {
	set := map[int]bool{}
	for _, f := range fr.Fields {
		for k := 1 << 16; k < f.Len; k <<= 1 {
			for d := -1; d <= 1; d++ {
				if p := f.Off + k + d; p >= 1 && p < n {
					set[p] = true
				}
			}
		}
	}
	return set
}

// TestC06Pinned: frames with multi-megabyte fields (a skippable frame of more than 1 MiB in front, legacy blocks of
// incompressible data stored in more than 8 MiB, 4 MiB raw blocks), cut at the buffer-sized offsets inside those fields,
// at the field boundaries +-1 and a few interior points; all reader configurations.
func TestC06Pinned(t *testing.T) {
	rec := stat.For("C06")
	rec.SetRule(c06Rule)
	cases := []c06Case{
		{Opts: wopts{BS: 4, Conc: 1, ContentSum: true}, Data: gen.Data{Segs: []gen.Seg{{K: "text", N: 3000, S: 1, P: 4}}}, Skip: []int{1<<20 + 5}},
		{Opts: wopts{BS: 4, Conc: 1}, Data: gen.Data{Segs: []gen.Seg{{K: "text", N: 100, S: 2, P: 4}}}, Skip: []int{3, 3 << 20}},
		{Opts: wopts{BS: 4, Conc: 1, Legacy: true}, Data: gen.Data{Segs: []gen.Seg{{K: "rand", N: 8<<20 + 100, S: 3}}}},
		{Opts: wopts{BS: 4, Conc: 1, Legacy: true}, Data: gen.Data{Segs: []gen.Seg{{K: "text", N: 8 << 20, S: 4, P: 4}, {K: "rand", N: 8 << 20, S: 5}, {K: "text", N: 70000, S: 6, P: 3}}}},
		{Opts: wopts{BS: 7, Conc: 1, BlockSum: true, ContentSum: true}, Data: gen.Data{Segs: []gen.Seg{{K: "rand", N: 4<<20 + 70000, S: 7}}}},
	}
	// full blocks stored raw with block checksums and without a content checksum (nothing after the end mark catches a reader
	// that takes a missing block checksum for the end of the stream), compressible blocks in between, every option subset
	for _, o := range []wopts{{BS: 4, Conc: 1, BlockSum: true}, {BS: 4, Conc: 1, BlockSum: true, Size: true}, {BS: 5, Conc: 1, BlockSum: true}, {BS: 4, Conc: 1}, {BS: 4, Conc: 1, BlockSum: true, ContentSum: true}} {
		b := o.blockSize()
		cases = append(cases, c06Case{Opts: o, Data: gen.Data{Segs: []gen.Seg{{K: "rand", N: 2 * b, S: 9}, {K: "text", N: b, S: 10, P: 4}, {K: "rand", N: b + 100, S: 11}}}})
	}
	// a current-format frame whose second block's size word equals the number of bytes decoded before it (the shape that ends
	// a *legacy* stream early, see the known finding of C02): Write(A), Flush, Write(B), len(A) = compressed size of B
	if a := sizeWordCoincidence(); a > 0 {
		for _, o := range []wopts{{BS: 4, Conc: 1}, {BS: 4, Conc: 1, BlockSum: true}, {BS: 4, Conc: 1, ContentSum: true}} {
			cases = append(cases, c06Case{Opts: o, Data: gen.Data{Segs: []gen.Seg{{K: "rand", N: a, S: 71}, {K: "run", N: 1000, P: 'a'}, {K: "rand", N: 300, S: 72}}},
				Del: delivery{Mode: "write", Chunks: []int{a, 1000}, Flush: []bool{true, true}}})
		}
	}
	if thorough() {
		cases = append(cases, c06Case{Opts: wopts{BS: 4, Conc: 1, Legacy: true}, Data: gen.Data{Segs: []gen.Seg{{K: "rand", N: 24<<20 + 5, S: 8}}}})
	}
	for i, c := range cases {
		if i%nshards != shard {
			continue
		}
		fz, f := buildC06Frame(c)
		if f != nil {
			judge(t, "C06", "C06/cut", c, f)
			return
		}
		set := bufferSizedCuts(fz.fr, len(fz.z))
		for _, fl := range fz.fr.Fields {
			for _, p := range []int{fl.Off - 2, fl.Off - 1, fl.Off, fl.Off + 1, fl.Off + 2, fl.Off + 3, fl.Off + fl.Len/3, fl.Off + fl.Len - 1} {
				if p >= 1 && p < len(fz.z) {
					set[p] = true
				}
			}
		}
		cuts := make([]int, 0, len(set))
		for p := range set {
			cuts = append(cuts, p)
		}
		sort.Ints(cuts)
		for _, cut := range cuts {
			for _, r := range []rcfg{{Conc: 1, Sizes: []int{64 << 20}}, {Conc: 1, WriteTo: true, Seeker: true}, {Conc: 2, Sizes: []int{65536}, Seeker: true}, {Conc: 4, WriteTo: true}} {
				cc := c
				cc.Cut, cc.R = cut, r
				judge(t, "C06", "C06/cut", cc, safelyCut(cc, fz, rec))
			}
		}
		rec.Class("pinned/multi-megabyte-fields")
	}
}

const c06Rule = "rapid-drawn frames (full option matrix incl. legacy, Write partitions with Flush) whose every prefix is read: all prefix lengths 1..len-1 for " +
	"frames up to 4 KiB (1.5 KiB in quick), every structural boundary +-3 bytes plus 64 sampled interior points for larger ones, each with 6 reader " +
	"configurations (concurrency 1/2/4 x Read with large, 7-byte, 4095-byte buffers or WriteTo). Oracle: non-nil error other than io.EOF and delivered bytes " +
	"are a prefix of the content. Legacy: cuts on a block boundary are skipped (the format cannot detect them). Non-trivial = every cut (it leaves zero bytes of " +
	"the next field or falls inside a field); distinct by (frame, cut, reader). Inside fields larger than 64 KiB the offsets 2^k+-1 are cut points too; pinned frames with " +
	"multi-megabyte fields (skippable frames of 1 MiB+5 and 3 MiB in front, legacy blocks stored in more than 8 MiB, 4 MiB raw blocks)."

func TestC06(t *testing.T) {
	rec := stat.For("C06")
	rec.SetRule(c06Rule)
	rec.Require("cut/skiplen/zero-bytes-left", "cut/skipdata/inside", "cut/magic/inside", "cut/csum/zero-bytes-left", "cut/endmark/zero-bytes-left", "cut/bsize/zero-bytes-left", "cut/bdata/zero-bytes-left", "cut/hc/zero-bytes-left", "cut/bsum/zero-bytes-left", "cut/lbdata/zero-bytes-left", "cut/csize/inside")
	n := pick(150, 4000)
	n = (n + nshards - 1) / nshards
	setRapid(n, "C06/cut")
	sampled := 0
	rapid.Check(t, func(rt *rapid.T) {
		var c c06Case
		c.Opts = drawWopts(rt, false, 2)
		small := rapid.IntRange(0, 9).Draw(rt, "small?") != 0
		var nbytes int
		if small {
			nbytes = rapid.IntRange(0, 900).Draw(rt, "n")
		} else {
			nbytes = sizeAround(rt, c.Opts.blockSize(), 200<<10)
			if c.Opts.Legacy {
				nbytes = rapid.IntRange(0, 200<<10).Draw(rt, "nlegacy")
			}
		}
		c.Data = drawFrameData(rt, nbytes)
		c.Del = drawDelivery(rt, nbytes, c.Opts.blockSize(), true, false)
		if c.Opts.Legacy {
			// a mid-stream Flush cuts short legacy blocks, which opens the kernel-trailer ambiguity (known finding of C02)
			c.Del.Flush = nil
		}
		if rapid.IntRange(0, 3).Draw(rt, "skippable?") == 0 {
			c.Skip = rapid.SliceOfN(rapid.SampledFrom([]int{0, 1, 3, 4, 9, 200, 9000, 70000}), 1, 2).Draw(rt, "skip")
		}
		fz, f := buildC06Frame(c)
		if f != nil {
			judge(rt, "C06", "C06/cut", c, f)
			return
		}
		for _, cut := range cutsFor(fz.fr, len(fz.z), rt) {
			for _, r := range c06Readers {
				cc := c
				cc.Cut, cc.R = cut, r
				judge(rt, "C06", "C06/cut", cc, safelyCut(cc, fz, rec))
			}
		}
		if sampled < 8 {
			sampled++
			rec.Sample(map[string]interface{}{"opts": c.Opts.String(), "content": len(fz.data), "frame": len(fz.z), "cuts": fmt.Sprintf("%d prefix lengths x %d readers", len(cutsFor(fz.fr, len(fz.z), rt)), len(c06Readers))})
		}
	})
	_ = io.EOF
}

func safelyCut(c c06Case, fz *c06Frame, rec *stat.Rec) (f *stat.Failure) {
	defer func() {
		if r := recover(); r != nil {
			f = panicFailure("C06", r, debug.Stack())
		}
	}()
	return runC06Cut(c, fz, rec)
}
