package props

import (
	"bytes"
	"fmt"
	"io"
	"os"
	"path/filepath"
	"testing"

	lz4 "github.com/pierrec/lz4/v4"
	"pgregory.net/rapid"

	"verifharness/gen"
	"verifharness/ref"
	"verifharness/stat"
)

// C16: frames with dependent blocks decode exactly across the 64 KiB window.

type c16Case struct {
	Spec gen.FrameSpec   `json:"spec"`
	R    rcfg            `json:"reader"`
	Prev []gen.FrameSpec `json:"prev,omitempty"` // frames the same Reader has decoded before (Reset in between)
}

func runC16(c c16Case, rec *stat.Rec) *stat.Failure {
	z, content := c.Spec.Build()
	var prev [][]byte
	for _, p := range c.Prev {
		pz, _ := p.Build()
		prev = append(prev, pz)
	}
	if len(prev) > 0 {
		rec.Class("reader/reused-after-other-frames")
	}
	// the encoder's own bookkeeping is cross-checked by the independent parser
	fr := ref.ParseFrame(z, ref.Strict)
	if !fr.OK() || !bytes.Equal(fr.Content, content) {
		return stat.Failf("harness-problem", "generated frame is not valid per the reference parser: %s", fr.Err)
	}
	rec.Eval()
	res := readAllAfter(prev, z, c.R, nil)
	desc := fmt.Sprintf("%d blocks, %d content bytes, reader %+v, %d earlier frames on the same Reader", len(c.Spec.Blocks), len(content), c.R, len(prev))
	if res.Err != nil {
		return stat.Failf("C16/valid-dependent-frame-rejected/"+errClass(res.Err), "%s: %v after %d bytes", desc, res.Err, len(res.Out))
	}
	if !bytes.Equal(res.Out, content) {
		path := "buffered"
		if c.R.WriteTo {
			path = "writeto"
		} else {
			for _, s := range c.R.Sizes {
				if s >= fr.BlockMax {
					path = "direct"
				}
			}
		}
		return stat.Failf("C16/decoded-content-differs/"+path, "%s: %d bytes out, %d expected, first difference at %d", desc, len(res.Out), len(content), firstDiff(res.Out, content))
	}
	// classification: how far back across block boundaries do the matches reach?
	pos := 0
	spanMax, crossing, maxOff := 0, 0, 0
	starts := []int{}
	raw := false
	for bi, b := range c.Spec.Blocks {
		starts = append(starts, pos)
		if b.Raw {
			raw = true
			pos += b.RawN
			continue
		}
		p := pos
		for _, s := range b.Seqs {
			p += s.LitN
			if s.Off > 0 {
				if s.Off > maxOff {
					maxOff = s.Off
				}
				if from := p - s.Off; from < pos {
					crossing++
					span := 0
					for k := bi - 1; k >= 0 && starts[k+1] > from; k-- {
						span++
					}
					if span > spanMax {
						spanMax = span
					}
				}
				p += s.MLen
			}
		}
		pos = p
	}
	if crossing > 0 {
		rec.NonTrivial(stat.FP(z, fmt.Sprint(c.R)))
		rec.Class("nontrivial")
		switch {
		case spanMax >= 8:
			rec.Class("match-spans/>=8-blocks")
		case spanMax >= 2:
			rec.Class("match-spans/2..7-blocks")
		default:
			rec.Class("match-spans/1-block")
		}
	}
	if maxOff == 65535 {
		rec.Class("offset/65535")
	} else if maxOff >= 60000 {
		rec.Class("offset/>=60000")
	}
	if raw {
		rec.Class("raw-blocks-present")
	}
	if len(content) > 128<<10 {
		rec.Class("content/>128KiB(window-trim-path)")
	}
	big := 0
	for _, b := range fr.Blocks {
		if b.Decoded > 65536 {
			big++
			if big >= 2 {
				rec.Class("blocks/two-consecutive->64KiB")
			}
		} else {
			big = 0
		}
	}
	if c.R.WriteTo {
		rec.Class("reader/writeto")
	}
	rec.Class(fmt.Sprintf("reader/conc=%d", c.R.Conc))
	rec.Sample(map[string]interface{}{"blocks": len(c.Spec.Blocks), "content": len(content), "matches reaching into earlier blocks": crossing, "max blocks spanned": spanMax, "max offset": maxOff, "reader": c.R})
	return nil
}

func drawC16(t *rapid.T) c16Case {
	var c c16Case
	p := gen.FrameParams{Dependent: 2, MaxBlocks: 12, MaxBlockLen: 0, BigBlocks: thorough() && rapid.IntRange(0, 9).Draw(t, "big?") == 0}
	switch rapid.IntRange(0, 4).Draw(t, "shape") {
	case 4:
		// consecutive blocks larger than the 64 KiB window (block maximum 256 KiB .. 4 MiB)
		p.BigBlocks = true
		p.MaxBlocks, p.MaxBlockLen = 5, pick(300<<10, 4<<20)
	case 0:
		p.MaxBlocks, p.MaxBlockLen = 60, 40 // runs of tiny blocks: the window spans dozens of blocks
	case 1:
		p.MaxBlocks, p.MaxBlockLen = 12, 3000
	case 2:
		p.MaxBlocks, p.MaxBlockLen = 6, 65536
	default:
		p.MaxBlocks, p.MaxBlockLen = 30, 9000
	}
	c.Spec = gen.DrawFrameSpec(t, p)
	bs := ref.BlockMaxOfCode(c.Spec.BSCode)
	c.R = drawRcfg(t, bs)
	if rapid.IntRange(0, 3).Draw(t, "reused?") == 0 {
		// the Reader has decoded one or two other frames before (dependent or not, other block maxima)
		for k := rapid.IntRange(1, 2).Draw(t, "nprev"); k > 0; k-- {
			c.Prev = append(c.Prev, gen.DrawFrameSpec(t, gen.FrameParams{Dependent: 1, MaxBlocks: 3, MaxBlockLen: 3000}))
		}
	}
	return c
}

func init() { register("C16", "C16/dependent", runC16) }

const c16Rule = "frames built by the independent encoder with the dependent-blocks flag: runs of up to 60 tiny blocks, blocks up to the block maximum (4 MiB in the thorough tier), matches whose offset " +
	"is the furthest the window allows (65535 once it is full), matches that reach just across the start of their block, raw blocks in between, with/without block and content checksums and size; " +
	"read with concurrency {1,2,4,GOMAXPROCS} through Read (sizes from {1,7,4095,bs-1,bs,bs+1,2bs,whole}: direct and buffered paths) or WriteTo, with source fragmentation. The expected content is " +
	"known by construction and cross-checked by the independent parser. One case in four runs on a Reader that has decoded one or two other frames before (Reset in between). Pinned: the repository's linked-block golden file (self-validating through its content checksum). Non-trivial = >= 1 " +
	"match reaching into a previous block; distinct by hash(frame, reader)."

func TestC16Pinned(t *testing.T) {
	rec := stat.For("C16")
	rec.SetRule(c16Rule)
	// a Reader reused across dependent frames with growing block maxima: the second frame has blocks that are larger than
	// anything the first one needed (what the object keeps from the first stream must not bound the second)
	for _, conc := range []int{1, 2, 4} {
		for _, wt := range []bool{false, true} {
			small := gen.FrameSpec{Version: 1, BlockIndep: false, ContentSum: true, BSCode: 4, Blocks: []gen.BlockSpec{
				{Seqs: []gen.SeqSpec{{LitN: 400, LitSeed: 1, LitKind: "text"}}},
				{Seqs: []gen.SeqSpec{{LitN: 2, LitSeed: 2, LitKind: "text", Off: 300, MLen: 200}, {LitN: 6, LitSeed: 3, LitKind: "text"}}}}}
			for _, code := range []int{5, 7} {
				bigger := gen.FrameSpec{Version: 1, BlockIndep: false, ContentSum: true, BSCode: code, Blocks: []gen.BlockSpec{
					{Raw: true, RawN: 200000, RawSeed: 5},
					{Seqs: []gen.SeqSpec{{LitN: 3, LitSeed: 6, LitKind: "text", Off: 65000, MLen: 5000}, {LitN: 150000, LitSeed: 7, LitKind: "rand", Off: 100, MLen: 20}, {LitN: 8, LitSeed: 8, LitKind: "text"}}},
					{Seqs: []gen.SeqSpec{{LitN: 1, LitSeed: 9, LitKind: "text", Off: 40000, MLen: 70}, {LitN: 12, LitSeed: 10, LitKind: "text"}}}}}
				pinned(t, "C16", "C16/dependent", c16Case{Spec: bigger, R: rcfg{Conc: conc, WriteTo: wt, Sizes: []int{65536}}, Prev: []gen.FrameSpec{small}}, runC16)
				pinned(t, "C16", "C16/dependent", c16Case{Spec: small, R: rcfg{Conc: conc, WriteTo: wt, Sizes: []int{4096}}, Prev: []gen.FrameSpec{bigger, small}}, runC16)
			}
		}
	}
	z, err := os.ReadFile(filepath.Join(repoDir(), "testdata", "Mark.Twain-Tom.Sawyer_linked.txt.lz4"))
	if err != nil {
		t.Fatalf("HARNESS: %v", err)
	}
	fr := ref.ParseFrame(z, ref.Strict)
	if !fr.OK() || fr.BlockIndep || !fr.ContentSum {
		t.Fatalf("HARNESS: the reference parser rejects the linked-block golden file: %s", fr.Err)
	}
	for _, rc := range []rcfg{{Conc: 1, Sizes: []int{65536}}, {Conc: 1, Sizes: []int{4095}}, {Conc: 4, Sizes: []int{1 << 20}}, {Conc: 4, WriteTo: true}, {Conc: 1, Sizes: []int{1, 70000}}} {
		rec.Eval()
		res := readAll(z, rc, nil)
		if res.Err != nil || !bytes.Equal(res.Out, fr.Content) {
			f := stat.Failf("C16/golden-linked-file-differs", "reader %+v: err=%v, %d bytes out, %d expected, first difference at %d", rc, res.Err, len(res.Out), len(fr.Content), firstDiff(res.Out, fr.Content))
			judge(t, "C16", "C16/golden", rc, f)
		}
		rec.NonTrivial(stat.FP("golden", fmt.Sprint(rc)))
		rec.Class("golden-linked-file")
	}
}

func TestC16(t *testing.T) {
	rec := stat.For("C16")
	rec.SetRule(c16Rule)
	rec.Require("nontrivial", "blocks/two-consecutive->64KiB", "match-spans/>=8-blocks", "match-spans/2..7-blocks", "offset/65535", "raw-blocks-present", "content/>128KiB(window-trim-path)", "reader/writeto")
	checkProp(t, "C16", "C16/dependent", pick(40000, 800000), drawC16, runC16)
}

// periodicSink checks, on the fly, that what it receives is pattern repeated (content of the huge frame below).
type periodicSink struct {
	pattern []byte
	n       uint64
	bad     int64 // offset of the first wrong byte, -1 if none
}

func (p *periodicSink) Write(b []byte) (int, error) {
	k := int(p.n % uint64(len(p.pattern)))
	for i := 0; i < len(b); {
		m := len(p.pattern) - k
		if m > len(b)-i {
			m = len(b) - i
		}
		if p.bad < 0 && !bytes.Equal(b[i:i+m], p.pattern[k:k+m]) {
			p.bad = int64(p.n) + int64(i) + int64(firstDiff(b[i:i+m], p.pattern[k:k+m]))
		}
		i += m
		k = 0
	}
	p.n += uint64(len(b))
	return len(b), nil
}

// TestC16Huge (quick: without content checksum, one reader): a dependent-block frame of more than 4 GiB (1024 full 4 MiB blocks and a short one), every
// block a single match at offset 65535 into the previous block: whatever the Reader counts in 32 bits wraps on a block boundary.
func TestC16Huge(t *testing.T) {
	rec := stat.For("C16")
	rec.SetRule(c16Rule)
	if shard != 0 {
		return
	}
	full := thorough() // quick: no content checksum (hashing 4 GiB with the reference takes longer than decoding it), one reader
	const bs = 4 << 20
	pattern := make([]byte, 65535)
	gen.Fill(pattern, 99)
	at := func(pos uint64, n int) []byte { // content bytes [pos, pos+n)
		out := make([]byte, n)
		for i := range out {
			out[i] = pattern[(pos+uint64(i))%65535]
		}
		return out
	}
	putLen := func(b []byte, n int) []byte {
		for ; n >= 255; n -= 255 {
			b = append(b, 255)
		}
		return append(b, byte(n))
	}
	block := func(pos uint64, size int, lit []byte) []byte {
		// [lit][match offset 65535, length size-len(lit)-5][5 final literals]
		var b []byte
		ml := size - len(lit) - 5
		tok := byte(0x0F)
		if len(lit) >= 15 {
			tok |= 0xF0
		} else {
			tok |= byte(len(lit)) << 4
		}
		b = append(b, tok)
		if len(lit) >= 15 {
			b = putLen(b, len(lit)-15)
		}
		b = append(b, lit...)
		b = append(b, 0xFF, 0xFF)
		b = putLen(b, ml-4-15)
		b = append(b, 0x50)
		return append(b, at(pos+uint64(size)-5, 5)...)
	}
	var z []byte
	z = append(z, 0x04, 0x22, 0x4D, 0x18)
	// version 01, dependent blocks, content size (known: 1025 full blocks), content checksum (thorough only); 4 MiB
	const hugeTotal = uint64(1025) * bs // (a multiple of the block size: the declared size modulo 2^32 is a block boundary as well)
	desc := []byte{0x40 | 0x08 | 0x04, 0x70}
	if !full {
		desc[0] = 0x40 | 0x08
	}
	for k := 0; k < 8; k++ {
		desc = append(desc, byte(hugeTotal>>(8*uint(k))))
	}
	z = append(z, desc...)
	z = append(z, byte(ref.XXH32(desc, 0)>>8))
	var hash ref.XXH32Stream
	var pos uint64
	add := func(blk []byte, size int) {
		z = append(z, byte(len(blk)), byte(len(blk)>>8), byte(len(blk)>>16), byte(len(blk)>>24))
		z = append(z, blk...)
		for left := size; left > 0 && full; {
			n := 1 << 20
			if n > left {
				n = left
			}
			hash.WriteFast(at(pos+uint64(size-left), n))
			left -= n
		}
		pos += uint64(size)
	}
	add(block(0, bs, pattern), bs)
	for i := 1; i < 1025; i++ {
		add(block(pos, bs, nil), bs)
	}
	z = append(z, 0, 0, 0, 0)
	readers := []rcfg{{Conc: 1, WriteTo: true}}
	if full {
		sum := hash.Sum32()
		z = append(z, byte(sum), byte(sum>>8), byte(sum>>16), byte(sum>>24))
		readers = append(readers, rcfg{Conc: 4, Sizes: []int{1 << 20}})
	}
	for _, rc := range readers {
		rec.Eval()
		sink := &periodicSink{pattern: pattern, bad: -1}
		r := lz4.NewReader(bytes.NewReader(z))
		_ = r.Apply(lz4.ConcurrencyOption(rc.Conc))
		var err error
		if rc.WriteTo {
			_, err = r.WriteTo(sink)
		} else {
			_, err = io.CopyBuffer(struct{ io.Writer }{sink}, struct{ io.Reader }{r}, make([]byte, rc.Sizes[0]))
		}
		if err != nil || sink.n != pos || sink.bad >= 0 {
			f := stat.Failf("C16/huge-dependent-frame", "frame of %d bytes, %d content bytes (1025 full dependent blocks, offset 65535), reader %+v: err=%v, %d bytes delivered, first wrong byte at %d", len(z), pos, rc, err, sink.n, sink.bad)
			judge(t, "C16", "C16/huge", rc, f)
		}
		rec.NonTrivial(stat.FP("huge", fmt.Sprint(rc)))
		rec.Class("content/>4GiB")
	}
}
