package props

import (
	"bytes"
	"errors"
	"fmt"
	"io"
	"runtime"
	"sync"
	"sync/atomic"
	"testing"

	lz4 "github.com/pierrec/lz4/v4"

	"verifharness/gen"
	"verifharness/inst"
	"verifharness/ref"
	"verifharness/stat"
)

// C19: frame header acceptance is exact and fields are reported faithfully.

type c19Case struct {
	Desc      uint16 `json:"desc"`       // FLG | BD<<8
	SizeField bool   `json:"size_field"` // an 8-byte size field is laid out after the descriptor
	Size      uint64 `json:"size"`
	HC        byte   `json:"hc"`
	Reader    bool   `json:"reader"` // also run Reader.Read + Size
}

var emptyHash = ref.XXH32(nil, 0)

func (c c19Case) bytes() []byte {
	b := []byte{0x04, 0x22, 0x4D, 0x18, byte(c.Desc), byte(c.Desc >> 8)}
	if c.SizeField {
		for i := 0; i < 8; i++ {
			b = append(b, byte(c.Size>>(8*uint(i))))
		}
	}
	b = append(b, c.HC)
	// a well-formed empty body: end mark, and the content checksum of the empty content
	b = append(b, 0, 0, 0, 0, byte(emptyHash), byte(emptyHash>>8), byte(emptyHash>>16), byte(emptyHash>>24))
	return b
}

// c19Expect interprets the bytes as the specification lays them out and returns the
// verdict: "accept", "checksum", "blocksize", "either" plus the declared size.
func c19Expect(b []byte) (verdict string, hasSize bool, size uint64) {
	flg, bd := b[4], b[5]
	p := 6
	if flg&0x08 != 0 {
		hasSize = true
		for i := 0; i < 8; i++ {
			size |= uint64(b[p+i]) << (8 * uint(i))
		}
		p += 8
	}
	hcOK := b[p] == byte(ref.XXH32(b[4:p], 0)>>8)
	code := int(bd>>4) & 7
	codeOK := code >= 4 && code <= 7
	switch {
	case hcOK && codeOK:
		return "accept", hasSize, size
	case !hcOK && codeOK:
		return "checksum", hasSize, size
	case hcOK && !codeOK:
		return "blocksize", hasSize, size
	}
	return "either", hasSize, size
}

func runC19(c c19Case, rec *stat.Rec) *stat.Failure {
	b := c.bytes()
	want, hasSize, size := c19Expect(b)
	ok, err := lz4.ValidFrameHeader(b)
	if f := c19Judge("ValidFrameHeader", c, want, ok, err); f != nil {
		return f
	}
	if !c.Reader {
		return nil
	}
	// once on a fresh Reader, once on a long-lived Reader that is Reset onto each header in turn (what it has
	// parsed before must not show)
	if f := c19Reader(c, b, want, hasSize, size, lz4.NewReader(bytes.NewReader(b)), "fresh"); f != nil {
		return f
	}
	ru := c19Reused.Get().(*lz4.Reader)
	defer c19Reused.Put(ru)
	ru.Reset(bytes.NewReader(b))
	if f := c19Reader(c, b, want, hasSize, size, ru, "reused"); f != nil {
		return f
	}
	// and a long-lived Reader whose sources answer (0, nil) before every piece of data (legal for an io.Reader):
	// whatever it counts about such reads must not add up across the streams it is Reset onto
	rz := c19ReusedZ.Get().(*lz4.Reader)
	defer c19ReusedZ.Put(rz)
	rz.Reset(&inst.Source{Data: b, ZeroBurst: 1})
	return c19Reader(c, b, want, hasSize, size, rz, "reused(empty-reads)")
}

var c19Reused = sync.Pool{New: func() interface{} { return lz4.NewReader(nil) }}
var c19ReusedZ = sync.Pool{New: func() interface{} { return lz4.NewReader(nil) }}

func c19Reader(c c19Case, b []byte, want string, hasSize bool, size uint64, r *lz4.Reader, kind string) *stat.Failure {
	if got := r.Size(); got != 0 {
		return stat.Failf("C19/size-reported-before-the-header-was-read/"+kind, "desc %04x: Size()=%d on a Reader that has not read anything yet", c.Desc, got)
	}
	var buf [16]byte
	n, rerr := r.Read(buf[:])
	if want == "accept" {
		// the body is an empty frame; with the content-checksum flag clear the 4 extra bytes are simply not consumed
		if n != 0 || rerr != io.EOF {
			return stat.Failf("C19/reader-rejects-valid-header/"+kind, "desc %04x sizefield=%v hc=%02x: Read=(%d,%v), want (0, EOF)", c.Desc, c.SizeField, c.HC, n, rerr)
		}
		got := r.Size()
		wantSize := uint64(0)
		if hasSize {
			wantSize = size
		}
		if uint64(got) != wantSize {
			return stat.Failf("C19/size-not-faithful/"+kind, "desc %04x declared size %d (flag %v): Size()=%d on a %s Reader", c.Desc, size, hasSize, got, kind)
		}
		return nil
	}
	if rerr == nil || rerr == io.EOF {
		return stat.Failf("C19/reader-accepts-invalid-header/"+want, "desc %04x sizefield=%v hc=%02x: Read=(%d,%v)", c.Desc, c.SizeField, c.HC, n, rerr)
	}
	return c19JudgeErr("Reader.Read", c, want, rerr)
}

func c19JudgeErr(who string, c c19Case, want string, err error) *stat.Failure {
	isHC := errors.Is(err, lz4.ErrInvalidHeaderChecksum)
	isBS := errors.Is(err, lz4.ErrOptionInvalidBlockSize)
	switch want {
	case "checksum":
		if !isHC {
			return stat.Failf("C19/wrong-checksum-not-reported-as-such/"+who, "desc %04x sizefield=%v hc=%02x: err=%v", c.Desc, c.SizeField, c.HC, err)
		}
	case "blocksize":
		if !isBS {
			return stat.Failf("C19/undefined-block-size-not-reported-as-such/"+who, "desc %04x sizefield=%v hc=%02x: err=%v", c.Desc, c.SizeField, c.HC, err)
		}
	case "either":
		if !isHC && !isBS {
			return stat.Failf("C19/invalid-header-reported-with-unrelated-error/"+who, "desc %04x sizefield=%v hc=%02x: err=%v", c.Desc, c.SizeField, c.HC, err)
		}
	}
	return nil
}

func c19Judge(who string, c c19Case, want string, ok bool, err error) *stat.Failure {
	if want == "accept" {
		if !ok || err != nil {
			return stat.Failf("C19/valid-header-rejected/"+who, "desc %04x sizefield=%v hc=%02x: (%v, %v)", c.Desc, c.SizeField, c.HC, ok, err)
		}
		return nil
	}
	if ok || err == nil {
		return stat.Failf("C19/invalid-header-accepted/"+want+"/"+who, "desc %04x sizefield=%v hc=%02x: (%v, %v)", c.Desc, c.SizeField, c.HC, ok, err)
	}
	return c19JudgeErr(who, c, want, err)
}

// ---- non-magic first words

type c19Word struct {
	Word uint32 `json:"word"`
}

func isMagic(w uint32) bool {
	return w == ref.MagicFrame || w == ref.MagicLegacy || (w >= ref.MagicSkipFirst && w <= ref.MagicSkipLast)
}

func runC19Word(c c19Word, rec *stat.Rec) *stat.Failure {
	if isMagic(c.Word) {
		return nil
	}
	// followed by bytes that would be a plausible header / skippable length
	b := []byte{byte(c.Word), byte(c.Word >> 8), byte(c.Word >> 16), byte(c.Word >> 24), 0x04, 0, 0, 0, 0xAA, 0xBB, 0xCC, 0xDD, 0x04, 0x22, 0x4D, 0x18, 0x60, 0x40, 0x82, 0, 0, 0, 0}
	ok, err := lz4.ValidFrameHeader(b)
	if ok || err != nil {
		sig := "C19/non-magic-first-word-not-(false,nil)"
		if c.Word>>8 == ref.MagicSkipFirst>>8 {
			sig += "/0x184D2Axx-outside-50..5F"
		}
		return stat.Failf(sig, "first word %08x: ValidFrameHeader=(%v, %v), want (false, nil)", c.Word, ok, err)
	}
	return nil
}

func init() {
	register("C19", "C19/header", runC19)
	register("C19", "C19/firstword", runC19Word)
}

const c19Rule = "complete enumeration: all 65536 descriptor values x {no size field, 8-byte size field laid out} x all 256 checksum bytes = 2^25 headers through " +
	"ValidFrameHeader, each followed by a well-formed empty body; the oracle interprets the bytes as the specification lays them out (XXH32 from harness/ref). " +
	"Reader.Read+Size on every header whose checksum byte is right (2^17) and on a stratified sample of the others; size values from {0,1,2^32-1,2^32,2^63-1,2^63," +
	"2^64-1,mixed}. Non-magic first words: +-600 around each magic, all 1- and 2-bit flips of the three magics, all 65536 words sharing the upper half 0x184D / 0x184C " +
	"(quick: 0x184D only). Every enumerated case is distinct by construction (index-addressed) and non-trivial (the verdict depends on the checksum byte)."

var c19Sizes = []uint64{0, 1, 1<<32 - 1, 1 << 32, 1<<63 - 1, 1 << 63, 1<<64 - 1, 0x0123456789ABCDEF}

func TestC19(t *testing.T) {
	rec := stat.For("C19")
	rec.SetRule(c19Rule)
	var firstFail atomic.Pointer[stat.Failure]
	var failCase atomic.Pointer[c19Case]
	var evals, nReader, nAccept int64
	workers := runtime.GOMAXPROCS(0)
	var wg sync.WaitGroup
	descs := make(chan int, 256)
	for w := 0; w < workers; w++ {
		wg.Add(1)
		go func() {
			defer wg.Done()
			var ev, nr, na int64
			for d := range descs {
				for layout := 0; layout < 2; layout++ {
					sizeField := layout == 1
					size := c19Sizes[(d*7+layout)%len(c19Sizes)]
					base := c19Case{Desc: uint16(d), SizeField: sizeField, Size: size}
					b := base.bytes()
					// the right checksum byte for this layout as the spec sees it
					p := 6
					if b[4]&0x08 != 0 {
						p += 8
					}
					right := byte(ref.XXH32(b[4:p], 0) >> 8)
					for hc := 0; hc < 256; hc++ {
						c := base
						c.HC = byte(hc)
						// when the flag is clear but a size field is laid out, the byte the library takes for the
						// checksum is the first size byte: vary that byte instead so the enumeration still covers all 256 values
						if sizeField && b[4]&0x08 == 0 {
							c.Size = size&^0xFF | uint64(hc)
						}
						isRight := false
						if sizeField && b[4]&0x08 == 0 {
							isRight = byte(hc) == right
						} else if !sizeField && b[4]&0x08 != 0 {
							// flag set without a size field: the 8 following bytes (hc + body) are read as the size; checksum is a body byte
							isRight = false
						} else {
							isRight = byte(hc) == right
						}
						// Reader on every header with the right checksum and on a 1/32 sample of the others
						c.Reader = isRight || (d+hc)%32 == 0
						if sizeField != (b[4]&0x08 != 0) {
							// layout inconsistent with the flag: what follows the header is not a well-formed body, so
							// only the header-level verdict (ValidFrameHeader) is checked
							c.Reader = false
						}
						ev++
						if c.Reader {
							nr++
						}
						if f := safely(runC19, c, rec); f != nil {
							if firstFail.CompareAndSwap(nil, f) {
								cc := c
								failCase.Store(&cc)
							}
							return
						} else if v, _, _ := c19Expect(c.bytes()); v == "accept" {
							na++
						}
					}
				}
			}
			atomic.AddInt64(&evals, ev)
			atomic.AddInt64(&nReader, nr)
			atomic.AddInt64(&nAccept, na)
		}()
	}
	lo, hi := 0, 65536
	if nshards > 1 {
		lo, hi = 65536*shard/nshards, 65536*(shard+1)/nshards
	}
	for d := lo; d < hi && firstFail.Load() == nil; d++ {
		descs <- d
	}
	close(descs)
	wg.Wait()
	rec.EvalN(evals)
	rec.NonTrivialEnumerated(evals)
	rec.ClassN("header/enumerated", evals)
	rec.ClassN("header/also-through-Reader", nReader)
	rec.ClassN("header/expected-accept", nAccept)
	rec.SetExhaustive(true)
	rec.Sample(map[string]interface{}{"check": "header", "desc": "0x6040", "size_field": false, "hc": "0x82", "expect": "accept"})
	rec.Sample(map[string]interface{}{"check": "header", "enumeration": fmt.Sprintf("descriptors %d..%d x 2 layouts x 256 checksum bytes", lo, hi-1)})
	if f := firstFail.Load(); f != nil {
		judge(t, "C19", "C19/header", *failCase.Load(), f)
	}
}

func TestC19FirstWord(t *testing.T) {
	rec := stat.For("C19")
	rec.SetRule(c19Rule)
	seen := map[uint32]bool{}
	var words []uint32
	add := func(w uint32) {
		if !seen[w] && !isMagic(w) {
			seen[w] = true
			words = append(words, w)
		}
	}
	magics := []uint32{ref.MagicFrame, ref.MagicLegacy, ref.MagicSkipFirst, ref.MagicSkipLast}
	for _, m := range magics {
		for d := -600; d <= 600; d++ {
			add(uint32(int64(m) + int64(d)))
		}
		for i := 0; i < 32; i++ {
			add(m ^ 1<<uint(i))
			for j := i + 1; j < 32; j++ {
				add(m ^ 1<<uint(i) ^ 1<<uint(j))
			}
		}
	}
	for lo := 0; lo < 65536; lo++ {
		add(0x184D0000 | uint32(lo))
		if thorough() {
			add(0x184C0000 | uint32(lo))
		}
	}
	buf := make([]byte, 4*pick(20000, 400000))
	gen.Fill(buf, uint64(seed))
	for i := 0; i+4 <= len(buf); i += 4 {
		add(uint32(buf[i]) | uint32(buf[i+1])<<8 | uint32(buf[i+2])<<16 | uint32(buf[i+3])<<24)
	}
	add(0)
	add(0xFFFFFFFF)
	for i, w := range words {
		if i%nshards != shard {
			continue
		}
		c := c19Word{Word: w}
		rec.Eval()
		f := safely(runC19Word, c, rec)
		if f != nil {
			judge(t, "C19", "C19/firstword", c, f)
		}
	}
	rec.NonTrivialEnumerated(int64(len(words) / nshards))
	rec.ClassN("firstword/non-magic", int64(len(words)/nshards))
	rec.Sample(map[string]interface{}{"check": "firstword", "word": "0x184D2A4F", "expect": "(false, nil)"})
}
