package props

import (
	"bytes"
	"errors"
	"fmt"
	"io"
	"regexp"
	"testing"
	"time"

	lz4 "github.com/pierrec/lz4/v4"
	"pgregory.net/rapid"

	"verifharness/gen"
	"verifharness/inst"
	"verifharness/ref"
	"verifharness/stat"
)

// C02: frame round trip under every option combination, chunking and entry point.

type c02Case struct {
	Opts wopts    `json:"opts"`
	Data gen.Data `json:"data"`
	Del  delivery `json:"delivery"`
	R    rcfg     `json:"reader"`
}

var numRe = regexp.MustCompile(`[0-9a-fx]*[0-9][0-9a-fx]*`)

// errClass reduces an error to a short stable class for signatures.
func errClass(err error) string {
	switch {
	case err == nil:
		return "nil"
	case errors.Is(err, inst.ErrInjected):
		return "injected"
	case errors.Is(err, inst.ErrSinkFull):
		return "sink-full"
	case errors.Is(err, lz4.ErrInvalidSourceShortBuffer):
		return "invalid-source-or-short-buffer"
	case errors.Is(err, lz4.ErrInvalidFrame):
		return "bad-magic"
	case errors.Is(err, lz4.ErrInternalUnhandledState):
		return "unhandled-state"
	case errors.Is(err, lz4.ErrInvalidHeaderChecksum):
		return "header-checksum"
	case errors.Is(err, lz4.ErrInvalidBlockChecksum):
		return "block-checksum"
	case errors.Is(err, lz4.ErrInvalidFrameChecksum):
		return "frame-checksum"
	case errors.Is(err, lz4.ErrOptionInvalidBlockSize):
		return "invalid-block-size"
	case errors.Is(err, lz4.ErrOptionClosedOrError):
		return "option-closed-or-error"
	case errors.Is(err, lz4.ErrOptionNotApplicable):
		return "option-not-applicable"
	case errors.Is(err, io.ErrUnexpectedEOF):
		return "unexpected-eof"
	case errors.Is(err, io.EOF):
		return "eof"
	}
	s := numRe.ReplaceAllString(err.Error(), "N")
	if len(s) > 40 {
		s = s[:40]
	}
	return "other:" + s
}

// sizeAround draws an input length relative to the block size.
func sizeAround(t *rapid.T, bs, maxLen int) int {
	var n int
	switch rapid.IntRange(0, 11).Draw(t, "sizeclass") {
	case 0:
		n = 0
	case 1:
		n = 1
	case 2:
		n = bs - 1
	case 3:
		n = bs
	case 4:
		n = bs + 1
	case 5:
		n = 2 * bs
	case 6:
		n = 2*bs + 1
	case 7:
		n = 3*bs - 1
	case 8:
		n = rapid.IntRange(2, 300).Draw(t, "n")
	case 9:
		n = rapid.IntRange(0, bs).Draw(t, "n")
	default:
		n = rapid.IntRange(0, 4*bs).Draw(t, "n")
	}
	if n > maxLen {
		n = rapid.IntRange(0, maxLen).Draw(t, "n.capped")
	}
	return n
}

func sizeClassRel(n, bs int) string {
	switch {
	case n == 0:
		return "input/empty"
	case n < bs-1:
		return "input/<bs-1"
	case n == bs-1:
		return "input/bs-1"
	case n == bs:
		return "input/bs"
	case n == bs+1:
		return "input/bs+1"
	case n%bs == 0:
		return "input/k*bs"
	default:
		return "input/multi-block"
	}
}

// drawFrameData draws the content of a stream of exactly n bytes (incompressible, all
// zero and mixed contents included).
func drawFrameData(t *rapid.T, n int) gen.Data {
	switch rapid.IntRange(0, 5).Draw(t, "content") {
	case 0:
		return gen.Data{Segs: []gen.Seg{{K: "rand", N: n, S: rapid.Uint64().Draw(t, "seed")}}}
	case 1:
		return gen.Data{Segs: []gen.Seg{{K: "run", N: n, P: 0}}}
	case 2:
		return gen.Data{Segs: []gen.Seg{{K: "text", N: n, P: 4, S: rapid.Uint64().Draw(t, "seed")}}}
	default:
		return gen.DrawDataN(t, n, "data")
	}
}

func drawC02(t *rapid.T) c02Case {
	var c c02Case
	c.Opts = drawWopts(t, true, 2)
	bs := c.Opts.blockSize()
	maxLen := pick(600<<10, 13<<20)
	if c.Opts.Level != 0 {
		maxLen = pick(200<<10, 1<<20)
	}
	if !thorough() && c.Opts.BS > 5 && rapid.IntRange(0, 3).Draw(t, "shrinkbs") != 0 {
		c.Opts.BS = 4
		bs = c.Opts.blockSize()
	}
	n := sizeAround(t, bs, maxLen)
	c.Data = drawFrameData(t, n)
	c.Del = drawDelivery(t, n, bs, true, true)
	c.R = drawRcfg(t, bs)
	return c
}

func runC02(c c02Case, rec *stat.Rec) *stat.Failure {
	data := c.Data.Build()
	var sink inst.Sink
	var handled int
	w := lz4.NewWriter(&sink)
	if err := w.Apply(c.Opts.options(len(data), func(n int) { handled += n })...); err != nil {
		return stat.Failf("C02/apply-rejects-valid-options", "Apply(%s): %v", c.Opts, err)
	}
	rec.Eval()
	if where, err := deliver(w, data, c.Del); err != nil {
		return stat.Failf("C02/writer-call-fails/"+errClass(err), "%s: %s: %v", c.Opts, where, err)
	}
	if err := w.Close(); err != nil {
		return stat.Failf("C02/close-fails/"+errClass(err), "%s: Close: %v", c.Opts, err)
	}
	z := sink.Buf
	res := readAll(z, c.R, nil)
	tag := fmt.Sprintf("wconc>1=%v/flush=%v/legacy=%v", concOf(c.Opts.Conc) > 1, c.Del.nFlush() > 0, c.Opts.Legacy)
	if res.Err != nil {
		return stat.Failf("C02/reader-error/"+errClass(res.Err)+"/"+tag, "%s; delivery %+v; reader %+v: %d bytes in, frame of %d bytes: read error after %d bytes: %v", c.Opts, c.Del, c.R, len(data), len(z), len(res.Out), res.Err)
	}
	if !bytes.Equal(res.Out, data) {
		if c.Opts.Legacy && c.Del.nFlush() == 0 {
			// the same ambiguity without any Flush: a full block whose compressed size happens to equal the bytes decoded so far
			if k, cum := legacyTrailerAmbiguity(z); k > 0 && len(res.Out) == cum && bytes.Equal(res.Out, data[:cum]) {
				return stat.Failf("C02/legacy/full-block-size-word-equals-running-total", "%s; delivery %+v: block %d of the emitted legacy frame has size word %d == bytes decoded so far; the Reader takes it for the kernel-style size trailer and ends the stream after %d of %d bytes", c.Opts, c.Del, k, cum, cum, len(data))
			}
		}
		if c.Opts.Legacy && c.Del.nFlush() > 0 {
			if k, cum := legacyTrailerAmbiguity(z); k > 0 && len(res.Out) == cum && bytes.Equal(res.Out, data[:cum]) {
				return stat.Failf("C02/legacy+flush/short-block-size-word-equals-running-total", "%s; delivery %+v: block %d of the emitted legacy frame has size word %d == bytes decoded so far; the Reader takes it for the kernel-style size trailer and ends the stream after %d of %d bytes", c.Opts, c.Del, k, cum, cum, len(data))
			}
		}
		return stat.Failf("C02/decoded-differs/"+tag, "%s; delivery %+v; reader %+v: %d bytes in, %d bytes out, first difference at %d", c.Opts, c.Del, c.R, len(data), len(res.Out), firstDiff(res.Out, data))
	}
	if !c.R.WriteTo && (res.EOFAgain != io.EOF || res.ExtraN != 0) {
		return stat.Failf("C02/no-clean-end-of-stream", "%s; reader %+v: Read after the end of stream returned (%d, %v)", c.Opts, c.R, res.ExtraN, res.EOFAgain)
	}
	if c.Opts.Size && !c.Opts.Legacy && len(data) > 0 && res.Size != len(data) {
		return stat.Failf("C02/size-not-reported", "%s: Size()=%d want %d", c.Opts, res.Size, len(data))
	}
	bs := c.Opts.blockSize()
	nblocks := (len(data) + bs - 1) / bs
	rec.Class(c.Opts.classes("")...)
	rec.Class(sizeClassRel(len(data), bs), "delivery/"+c.Del.Mode, fmt.Sprintf("reader/conc=%d", c.R.Conc))
	if c.Del.nFlush() > 0 {
		rec.Class("delivery/with-flush")
		if concOf(c.Opts.Conc) > 1 {
			rec.Class("delivery/flush+concurrent-writer")
		}
	}
	if c.R.WriteTo {
		rec.Class("reader/writeto")
	} else {
		direct := false
		for _, s := range c.R.Sizes {
			if s >= bs {
				direct = true
			}
		}
		if direct {
			rec.Class("reader/direct-path")
		} else {
			rec.Class("reader/buffered-path")
		}
	}
	if nblocks >= 2 || c.Del.nFlush() > 0 || c.Del.Mode == "readfrom" || concOf(c.Opts.Conc) > 1 || concOf(c.R.Conc) > 1 {
		rec.NonTrivial(stat.FP(c.Opts.String(), data, fmt.Sprint(c.Del), fmt.Sprint(c.R)))
		rec.Class("nontrivial")
	}
	rec.Sample(map[string]interface{}{"opts": c.Opts.String(), "len": len(data), "blocks": nblocks, "delivery": c.Del, "reader": c.R, "frame": len(z)})
	return nil
}

// legacyTrailerAmbiguity walks the blocks of a legacy frame and reports the first block
// (index >= 1) whose size word equals the number of bytes decoded before it, together with
// that number. Such a word is indistinguishable from the Linux-kernel-style size trailer.
func legacyTrailerAmbiguity(z []byte) (int, int) {
	if len(z) < 4 {
		return 0, 0
	}
	p, cum := 4, 0
	for k := 0; len(z)-p >= 4; k++ {
		w := int(uint32(z[p]) | uint32(z[p+1])<<8 | uint32(z[p+2])<<16 | uint32(z[p+3])<<24)
		if k > 0 && w == cum {
			return k, cum
		}
		p += 4
		if w <= 0 || len(z)-p < w {
			return 0, 0
		}
		res := ref.DecodeBlock(z[p:p+w], ref.LegacyBlock, nil)
		if res.Kind != ref.OK {
			return 0, 0
		}
		cum += len(res.Out)
		p += w
	}
	return 0, 0
}

func firstDiff(a, b []byte) int {
	n := len(a)
	if len(b) < n {
		n = len(b)
	}
	for i := 0; i < n; i++ {
		if a[i] != b[i] {
			return i
		}
	}
	return n
}

func init() { register("C02", "C02/roundtrip", runC02) }

const c02Rule = "rapid-drawn (option vector x input x delivery x reader): options = block size {64K,256K,1M,4M} x block checksum x content checksum x " +
	"size x {Fast, Level1..9} x concurrency {1,2,4,GOMAXPROCS} x legacy; input length from {0,1,bs-1,bs,bs+1,2bs,2bs+1,3bs-1,random} with random / zero / " +
	"text / grammar contents; delivery = partition into Write calls (cuts at 1 byte, bs-1, bs, bs+1, random) with Flush marks, or one ReadFrom from a " +
	"fragmenting source; reader = concurrency x (Read size sequence from {1,7,4095,bs-1,bs,bs+1,2bs,whole} | WriteTo) x source fragmentation. " +
	"Non-trivial = >= 2 blocks, or a Flush, or ReadFrom, or concurrency > 1 on either side; distinct by hash(options, input, delivery, reader)."

func TestC02Pinned(t *testing.T) {
	stat.For("C02").SetRule(c02Rule)
	// the block-size boundaries for every block size, sequential and concurrent, Write and ReadFrom
	for _, bs := range []int{4, 5} {
		b := int(blockSizes[bs])
		for _, n := range []int{0, 1, b - 1, b, b + 1, 2 * b, 2*b + 1} {
			for _, conc := range []int{1, 4} {
				for _, mode := range []string{"write", "readfrom"} {
					c := c02Case{Opts: wopts{BS: bs, BlockSum: true, ContentSum: true, Size: true, Conc: conc},
						Data: gen.Data{Segs: []gen.Seg{{K: "text", N: n, S: uint64(n), P: 4}}}, Del: delivery{Mode: mode},
						R: rcfg{Conc: conc, Sizes: []int{b}}}
					pinned(t, "C02", "C02/roundtrip", c, runC02)
				}
			}
		}
	}
	// legacy: one block, two blocks and a bit (8 MiB blocks), compressible and not
	for _, n := range []int{100, 8<<20 + 5} {
		for _, k := range []string{"text", "rand"} {
			c := c02Case{Opts: wopts{BS: 7, Conc: 1, Legacy: true}, Data: gen.Data{Segs: []gen.Seg{{K: k, N: n, S: 5, P: 4}}},
				Del: delivery{Mode: "write"}, R: rcfg{Conc: 1, Sizes: []int{1 << 20}}}
			pinned(t, "C02", "C02/roundtrip", c, runC02)
		}
	}
	// legacy, more than one 8 MiB block, every entry point and reader kind
	for _, wconc := range []int{1, 4} {
		for _, mode := range []string{"write", "readfrom"} {
			for _, rc := range []rcfg{{Conc: 4, WriteTo: true}, {Conc: 1, Sizes: []int{4095}}, {Conc: 2, Sizes: []int{9 << 20}}} {
				c := c02Case{Opts: wopts{BS: 4, Conc: wconc, Legacy: true}, Data: gen.Data{Segs: []gen.Seg{{K: "text", N: 16<<20 + 77, S: 3, P: 5}}},
					Del: delivery{Mode: mode, Chunks: []int{5 << 20}, Flush: []bool{false}}, R: rc}
				pinned(t, "C02", "C02/roundtrip", c, runC02)
			}
		}
	}
	// legacy, concurrent writer, two and more incompressible 8 MiB blocks in flight. The goroutine that writes the blocks out is
	// held back for 30 ms per block (hook sites 6 and 7, real time: this check does not run in a bubble), so that the workers
	// of the following blocks have finished before the earlier block is written, whatever the load of the machine
	{
		slow := func(site int) {
			if site == 6 || site == 7 {
				time.Sleep(30 * time.Millisecond)
			}
		}
		yieldHook.Store(&slow)
		for _, wconc := range []int{1, 4, 2} {
			c := c02Case{Opts: wopts{BS: 4, Conc: wconc, Legacy: true}, Data: gen.Data{Segs: []gen.Seg{{K: "rand", N: 25<<20 + 100, S: 31}}},
				Del: delivery{Mode: "write", Chunks: []int{3 << 20}, Flush: []bool{false}}, R: rcfg{Conc: 4, WriteTo: true}}
			pinned(t, "C02", "C02/roundtrip", c, runC02)
		}
		yieldHook.Store(nil)
	}
	// legacy, incompressible blocks that are almost full (their compressed form does not fit a block-sized buffer)
	for _, n := range []int{8<<20 - 1, 8356000, 16<<20 - 1, 8<<20 + 8370000} {
		c := c02Case{Opts: wopts{BS: 4, Conc: 1, Legacy: true, Level: levels[n%3]}, Data: gen.Data{Segs: []gen.Seg{{K: "rand", N: n, S: uint64(n)}}},
			Del: delivery{Mode: []string{"write", "readfrom"}[n%2]}, R: rcfg{Conc: 1, WriteTo: n%2 == 0, Sizes: []int{1 << 20}}}
		pinned(t, "C02", "C02/roundtrip", c, runC02)
	}
	// uniformly random symbols over a small alphabet, at the edge of compressibility: full blocks in which the compressor
	// finds matches only after its output has outgrown the block (it then gives up with an error, not with "incompressible")
	for _, a := range []struct {
		alpha int
		level uint32
	}{{10, 0}, {11, 0}, {12, 0}, {20, levels[1]}, {26, levels[5]}, {32, levels[9]}} {
		for _, bs := range []int{4, 5} {
			nb := 48
			if bs == 5 {
				nb = 12
			}
			c := c02Case{Opts: wopts{BS: bs, Conc: 1 + a.alpha%2, ContentSum: true, Level: a.level}, Data: gen.Data{Segs: []gen.Seg{{K: "text", N: nb * int(blockSizes[bs]), S: uint64(a.alpha), P: a.alpha}}},
				Del: delivery{Mode: "write"}, R: rcfg{Conc: 1, Sizes: []int{1 << 20}}}
			pinned(t, "C02", "C02/roundtrip", c, runC02)
		}
	}
	// the witness of the known finding (KNOWN_FINDINGS.jsonl): legacy, Write(3 bytes), Flush, Write(2 bytes), Close. Pinned so that
	// every run meets it (and prints its KNOWN-FINDING line) whatever the random part draws
	pinned(t, "C02", "C02/roundtrip", c02Case{Opts: wopts{BS: 4, Conc: 1, Legacy: true}, Data: gen.Data{Segs: []gen.Seg{{K: "raw", N: 5, Raw: []byte("abcde")}}},
		Del: delivery{Mode: "write", Chunks: []int{3}, Flush: []bool{true}}, R: rcfg{Conc: 1, Sizes: []int{4096}}}, runC02)
	// ... and the witness of its variant without Flush: 16 MiB, the second 8 MiB block tuned (k trailing zero bytes) so that it
	// compresses to exactly 8 MiB = the number of bytes decoded before it
	if k := tuneLegacyBlockTo8MiB(); k >= 0 {
		pinned(t, "C02", "C02/roundtrip", c02Case{Opts: wopts{BS: 4, Conc: 1, Legacy: true}, Data: gen.Data{Segs: []gen.Seg{{K: "count", N: 8 << 20, S: 3}, {K: "rand", N: 8<<20 - k, S: 42}, {K: "run", N: k, P: 0}}},
			Del: delivery{Mode: "readfrom"}, R: rcfg{Conc: 1, Sizes: []int{1 << 20}}}, runC02)
	}
	// a current-format frame with the shape of the legacy finding: Write(A), Flush, Write(B) where the compressed size of B's block
	// equals len(A) - the size word of the second block is the number of bytes decoded so far; and inputs whose first stored
	// block (or whole content) has XXH32 0 (a value some code takes for "no checksum")
	if a := sizeWordCoincidence(); a > 0 {
		for _, o := range []wopts{{BS: 4, Conc: 1}, {BS: 4, Conc: 1, BlockSum: true}, {BS: 4, Conc: 2, ContentSum: true}} {
			for _, rc := range []rcfg{{Conc: 1, Sizes: []int{4096}}, {Conc: 1, WriteTo: true}, {Conc: 4, Sizes: []int{65536}}} {
				pinned(t, "C02", "C02/roundtrip", c02Case{Opts: o, Data: gen.Data{Segs: []gen.Seg{{K: "rand", N: a, S: 71}, {K: "run", N: 1000, P: 'a'}, {K: "rand", N: 300, S: 72}}},
					Del: delivery{Mode: "write", Chunks: []int{a, 1000}, Flush: []bool{true, true}}, R: rc}, runC02)
			}
		}
	}
	for _, n := range []int{4, 20, 65536 - 12, 65536 + 65536 - 12} {
		for _, conc := range []int{1, 2} {
			segs := []gen.Seg{{K: "rand", N: n, S: uint64(n)}}
			if n > 65536 {
				segs = []gen.Seg{{K: "rand", N: 65536 - 12, S: 1}, {K: "rand", N: n - 65536 + 12, S: 2}}
			}
			d := gen.Data{Segs: segs}
			raw := d.Build()
			if zeroPatch(raw, "block", 65536) {
				pinned(t, "C02", "C02/roundtrip", c02Case{Opts: wopts{BS: 4, BlockSum: true, ContentSum: true, Conc: conc}, Data: gen.Data{Segs: []gen.Seg{{K: "raw", N: len(raw), Raw: raw}}},
					Del: delivery{Mode: "write"}, R: rcfg{Conc: conc, Sizes: []int{65536}}}, runC02)
			}
		}
	}
	// 4 MiB blocks
	c := c02Case{Opts: wopts{BS: 7, ContentSum: true, Conc: 2}, Data: gen.Data{Segs: []gen.Seg{{K: "text", N: 4<<20 + 1, S: 5, P: 4}}},
		Del: delivery{Mode: "write", Chunks: []int{4 << 20}, Flush: []bool{false}}, R: rcfg{Conc: 2, WriteTo: true}}
	pinned(t, "C02", "C02/roundtrip", c, runC02)
}

// tuneLegacyBlockTo8MiB finds k such that 8 MiB - k random bytes (seed 42) followed by k zero bytes compress, as one legacy
// block, to exactly 8 MiB; -1 if there is no such k near the crossing point.
func tuneLegacyBlockTo8MiB() int {
	const B = 8 << 20
	csize := func(k int) int {
		blk := gen.Data{Segs: []gen.Seg{{K: "rand", N: B - k, S: 42}, {K: "run", N: k, P: 0}}}.Build()
		var sink inst.Sink
		w := lz4.NewWriter(&sink)
		_ = w.Apply(lz4.LegacyOption(true))
		_, _ = w.Write(blk)
		_ = w.Close()
		return len(sink.Buf) - 8
	}
	lo, hi := 0, 200000
	for lo < hi {
		m := (lo + hi) / 2
		if csize(m) > B {
			lo = m + 1
		} else {
			hi = m
		}
	}
	for k := lo - 300; k < lo+300; k++ {
		if k >= 0 && csize(k) == B {
			return k
		}
	}
	return -1
}

// sizeWordCoincidence returns the compressed size of a block of 1000 'a' bytes (the fast compressor): an input that starts with
// that many incompressible bytes, is flushed, and goes on with the 1000 'a's has a second block whose size word equals the
// number of bytes decoded before it.
func sizeWordCoincidence() int {
	dst := make([]byte, lz4.CompressBlockBound(1000))
	n, err := lz4.CompressBlock(bytes.Repeat([]byte{'a'}, 1000), dst, nil)
	if err != nil || n <= 0 {
		return 0
	}
	return n
}

func TestC02(t *testing.T) {
	rec := stat.For("C02")
	rec.SetRule(c02Rule)
	rec.Require("nontrivial", "delivery/with-flush", "delivery/readfrom", "delivery/flush+concurrent-writer", "opt/legacy", "reader/direct-path", "reader/buffered-path", "reader/writeto", "input/bs", "input/bs+1", "input/bs-1", "input/empty")
	checkProp(t, "C02", "C02/roundtrip", pick(5000, 120000), drawC02, runC02)
}
