package props

import (
	"errors"
	"fmt"
	"io"
	"os"
	"testing"

	lz4 "github.com/pierrec/lz4/v4"
	"pgregory.net/rapid"

	"verifharness/gen"
	"verifharness/inst"
	"verifharness/ref"
	"verifharness/stat"
)

// C18: the compressing reader yields one valid frame for any read pattern.

type c18Case struct {
	Opts     wopts    `json:"opts"`
	Data     gen.Data `json:"data"`
	Head     []int    `json:"head,omitempty"` // sizes of the first reads (aimed at the structure of the expected frame), then Sizes cyclically
	Sizes    []int    `json:"sizes"`          // cyclic Read buffer sizes (0 allowed)
	Src      []int    `json:"src,omitempty"`
	EOFW     bool     `json:"eofwith,omitempty"`
	FailAt   int      `json:"failat,omitempty"`
	FailKind int      `json:"failkind,omitempty"` // 0 plain error, 1 wraps io.EOF, 2 wraps io.ErrUnexpectedEOF, 3 io.ErrUnexpectedEOF itself, 4 / 5 as 0 / 2 but returned together with data
	Prev     *c18Prev `json:"prev,omitempty"`     // an earlier stream read (partly) through the same object before Reset
	Split    int      `json:"split,omitempty"`    // how the options are applied: 0 one Apply call; 1 one Apply call per option; 2 as 1, the size option first and an empty Apply() last
	Zero     string   `json:"zero,omitempty"`     // block | content: the data is patched so that the XXH32 of its first (stored) block / of the whole content is 0
}

// c18Prev: the object's earlier life: a stream that is read for Calls calls (its source may fail), then Reset.
type c18Prev struct {
	Data   gen.Data `json:"data"`
	Sizes  []int    `json:"sizes"`
	Calls  int      `json:"calls"`
	FailAt int      `json:"failat,omitempty"`
}

func failErr(kind int) error {
	switch kind {
	case 1:
		return inst.ErrInjectedWrapsEOF
	case 2, 5:
		return inst.ErrInjectedWrapsUnexpectedEOF
	case 3:
		return io.ErrUnexpectedEOF // the sentinel itself: what a truncated gzip / http body / lz4 stream returns
	case 6:
		return io.ErrClosedPipe // other sentinels of the io package that real sources return (a closed io.Pipe, a stuck reader ...)
	case 7:
		return io.ErrNoProgress
	case 8:
		return io.ErrShortBuffer
	case 9:
		return os.ErrClosed
	}
	return nil // 0, 4: the plain injected error
}

// failWant: the error a failure of this kind must surface as (errors.Is).
func failWant(kind int) error {
	if e := failErr(kind); e != nil && kind != 1 && kind != 2 && kind != 5 {
		return e
	}
	return inst.ErrInjected
}

// failWithData: kinds 4 and 5 return the error together with the data of the failing call.
func failWithData(kind int) bool { return kind == 4 || kind == 5 }

func runC18(c c18Case, rec *stat.Rec) *stat.Failure {
	data := c.Data.Build()
	if c.Zero != "" && zeroPatch(data, c.Zero, c.Opts.blockSize()) {
		rec.Class("input/xxh32-of-" + c.Zero + "-is-zero")
	}
	src := &inst.Source{Data: data, Chunks: c.Src, EOFWith: c.EOFW, FailAt: c.FailAt, FailWith: failErr(c.FailKind), FailData: failWithData(c.FailKind)}
	rc := &inst.ReadCloser{Reader: src}
	cr := lz4.NewCompressingReader(rc)
	if c.Prev != nil {
		// an earlier stream on the same object, abandoned (or failed) part-way, then Reset
		psrc := &inst.Source{Data: c.Prev.Data.Build(), FailAt: c.Prev.FailAt}
		cr = lz4.NewCompressingReader(&inst.ReadCloser{Reader: psrc})
		pbuf := make([]byte, 1<<17)
		for i := 0; i < c.Prev.Calls && len(c.Prev.Sizes) > 0; i++ {
			sz := c.Prev.Sizes[i%len(c.Prev.Sizes)]
			if sz > len(pbuf) {
				sz = len(pbuf)
			}
			if _, err := cr.Read(pbuf[:sz]); err != nil {
				break
			}
		}
		cr.Reset(rc)
		rec.Class("reuse/reset-after-an-earlier-stream")
		if c.Prev.FailAt > 0 && psrc.Failed > 0 {
			rec.Class("reuse/reset-after-a-source-failure")
		}
	}
	opts := []lz4.Option{lz4.BlockSizeOption(blockSizes[c.Opts.BS]), lz4.BlockChecksumOption(c.Opts.BlockSum), lz4.ChecksumOption(c.Opts.ContentSum),
		lz4.CompressionLevelOption(lz4.CompressionLevel(c.Opts.Level))}
	if c.Opts.Size {
		opts = append(opts, lz4.SizeOption(uint64(len(data))))
	}
	switch c.Split {
	case 0:
		if err := cr.Apply(opts...); err != nil {
			return stat.Failf("C18/apply-rejects-valid-options", "%v", err)
		}
	default:
		// the options of one stream given in several Apply calls (each call must add to, not replace, what the earlier ones set)
		if c.Split == 2 {
			opts = append(append([]lz4.Option{}, opts[len(opts)-1]), opts[:len(opts)-1]...)
		}
		for _, o := range opts {
			if err := cr.Apply(o); err != nil {
				return stat.Failf("C18/apply-rejects-valid-options", "%v", err)
			}
		}
		if c.Split == 2 {
			if err := cr.Apply(); err != nil {
				return stat.Failf("C18/apply-rejects-valid-options", "empty Apply: %v", err)
			}
		}
		rec.Class("options/applied-in-several-calls")
	}
	rec.Eval()
	var out []byte
	maxSz := 1
	for _, s := range append(append([]int{}, c.Head...), c.Sizes...) {
		if s > maxSz {
			maxSz = s
		}
	}
	buf := make([]byte, maxSz+8)
	var final error
	zeroRun := 0
	pendingSeen := false
	sizesUsed := map[int]bool{}
	for i := 0; ; i++ {
		sz := 0
		if i < len(c.Head) {
			sz = c.Head[i]
		} else {
			sz = c.Sizes[(i-len(c.Head))%len(c.Sizes)]
		}
		sizesUsed[sz] = true
		// canary right behind p (filling the whole scratch buffer on every call would dominate the run time for 1-byte reads)
		for j := sz; j < sz+8; j++ {
			buf[j] = 0xA7
		}
		n, err := cr.Read(buf[:sz])
		desc := fmt.Sprintf("%s, %d bytes in, head %v sizes %v: call %d Read(%d)", c.Opts, len(data), c.Head, c.Sizes, i, sz)
		if n < 0 || n > sz {
			return stat.Failf("C18/n-out-of-range", "%s returned n=%d", desc, n)
		}
		for j := sz; j < sz+8; j++ {
			if buf[j] != 0xA7 {
				return stat.Failf("C18/writes-beyond-len(p)", "%s wrote at p[%d]", desc, j)
			}
		}
		out = append(out, buf[:n]...)
		if err != nil {
			final = err
			// what the stream ended with, it keeps ending with ("followed by io.EOF"; "an error from the source is passed
			// through"): two more calls must deliver nothing and the same verdict (io.EOF stays io.EOF itself)
			for k := 0; k < 2; k++ {
				n2, err2 := cr.Read(buf[:maxI(sz, 1)])
				same := err2 != nil && (err2 == err || (err != io.EOF && errors.Is(err2, failWant(c.FailKind))))
				if n2 != 0 || !same {
					return stat.Failf("C18/end-of-stream-is-not-sticky/"+errClass(err), "%s returned (%d, %v); call %d after that returned (%d, %v)", desc, n, err, k+1, n2, err2)
				}
			}
			rec.Class("end-is-sticky-checked")
			break
		}
		if n == 0 {
			if sz > 0 {
				return stat.Failf("C18/no-progress", "%s returned (0, nil)", desc)
			}
			zeroRun++
			if zeroRun > len(c.Sizes)+2 {
				break // only zero-length buffers: no progress is expected
			}
		} else {
			zeroRun = 0
		}
		if n == sz && sz > 0 {
			pendingSeen = true
		}
		// every cycle through the sizes delivers at least one byte, and the frame is at most a little larger than the input
		if limit := (len(data) + len(data)/128 + 1<<16) * (len(c.Sizes) + len(c.Head) + 1); i > limit {
			return stat.Failf("C18/never-ends", "%s: no end after %d calls", desc, limit)
		}
	}
	desc := fmt.Sprintf("%s, %d bytes in, head %v sizes %v, source chunks %v", c.Opts, len(data), c.Head, c.Sizes, c.Src)
	if c.FailAt > 0 && src.Failed > 0 {
		want := failWant(c.FailKind)
		if !errors.Is(final, want) {
			return stat.Failf("C18/source-error-not-passed-through/"+errClass(final)+fmt.Sprintf("/failkind=%d", c.FailKind), "%s: source failed at call %d (kind %d: %v, with data: %v), Read returned %v", desc, c.FailAt, c.FailKind, want, failWithData(c.FailKind), final)
		}
		rec.Class("source-error-passed-through")
		rec.Class(fmt.Sprintf("source-error-kind-%d-passed-through", c.FailKind))
		if c.FailKind != 0 {
			rec.Class("source-error-wrapping-EOF-passed-through")
		}
		return nil
	}
	if final == nil {
		rec.Class("zero-length-buffers-only")
		return nil
	}
	if final != io.EOF {
		return stat.Failf("C18/ends-with-error-instead-of-EOF/"+errClass(final), "%s: %v after %d bytes", desc, final, len(out))
	}
	o := c.Opts
	o.Legacy = false
	if f := checkStrictFrame("C18", out, data, o, false); f != nil {
		f.Msg = desc + ": " + f.Msg
		return f
	}
	rec.Class(o.classes("")...)
	rec.Class(sizeClassRel(len(data), o.blockSize()))
	if len(c.Src) > 0 {
		rec.Class("source/fragmented")
	}
	if pendingSeen && len(sizesUsed) >= 2 {
		rec.NonTrivial(stat.FP(data, o.String(), fmt.Sprint(c.Sizes)))
		rec.Class("nontrivial")
	}
	small := false
	for s := range sizesUsed {
		if s > 0 && s < 7 {
			small = true
		}
	}
	if small {
		rec.Class("sizes/below-header-size")
	}
	if len(c.Head) > 0 {
		rec.Class("sizes/aimed-at-field-boundaries")
	}
	rec.Sample(map[string]interface{}{"opts": o.String(), "len": len(data), "sizes": c.Sizes, "source chunks": c.Src, "frame": len(out)})
	return nil
}

func drawC18(t *rapid.T) c18Case {
	var c c18Case
	c.Opts = drawWopts(t, true, 0)
	c.Opts.Conc, c.Opts.Legacy = 1, false
	c.Split = rapid.SampledFrom([]int{0, 0, 1, 2}).Draw(t, "split")
	if !thorough() && c.Opts.BS > 5 {
		c.Opts.BS = 4
	}
	bs := c.Opts.blockSize()
	n := sizeAround(t, bs, pick(300<<10, 4<<20+4096))
	if c.Opts.Level != 0 && n > 200<<10 {
		n = 200 << 10
	}
	c.Data = drawFrameData(t, n)
	// compressed block size of the first block, to aim buffer sizes at it
	cb := 100
	if n > 0 {
		first := c.Data.Build()
		if len(first) > bs {
			first = first[:bs]
		}
		tmp := make([]byte, lz4.CompressBlockBound(len(first)))
		if m, _ := lz4.CompressBlock(first, tmp, nil); m > 0 {
			cb = m + 4
		}
	}
	pool := []int{0, 1, 2, 6, 7, 8, 15, 19, cb - 1, cb, cb + 1, 2 * cb, bs, bs + 100, 3 * bs}
	c.Sizes = rapid.SliceOfN(rapid.SampledFrom(pool), 1, 5).Draw(t, "sizes")
	if rapid.IntRange(0, 3).Draw(t, "anysize") == 0 {
		c.Sizes = append(c.Sizes, rapid.IntRange(1, 2*bs).Draw(t, "size"))
	}
	nonzero := false
	for i, s := range c.Sizes {
		if s < 0 {
			c.Sizes[i] = 0
		}
		if s > 0 {
			nonzero = true
		}
	}
	if !nonzero && rapid.IntRange(0, 9).Draw(t, "allowallzero") != 0 {
		c.Sizes = append(c.Sizes, 5)
	}
	if n > 0 && rapid.IntRange(0, 2).Draw(t, "aimed?") == 0 {
		// first reads that end exactly on (or one byte around) field boundaries of the frame that is going to come out:
		// exact fits and exact drains of the carried-over bytes
		o := c.Opts
		z, f := emit(wopts{BS: o.BS, BlockSum: o.BlockSum, ContentSum: o.ContentSum, Size: o.Size, Level: o.Level, Conc: 1}, c.Data.Build(), "readfrom", delivery{Mode: "readfrom"}, nil)
		if f == nil {
			fr := ref.ParseFrame(z, ref.Walk)
			var marks []int
			for _, fd := range fr.Fields {
				marks = append(marks, fd.Off, fd.Off+fd.Len)
			}
			k := rapid.IntRange(1, 4).Draw(t, "naimed")
			pos := 0
			for i := 0; i < k && len(marks) > 0; i++ {
				m := rapid.SampledFrom(marks).Draw(t, "mark") + rapid.SampledFrom([]int{0, 0, 0, -1, 1}).Draw(t, "markdelta")
				if m > pos {
					c.Head = append(c.Head, m-pos)
					pos = m
				}
			}
			c.Head = append(c.Head, rapid.SampledFrom([]int{1, 10, 1000, 2 * bs}).Draw(t, "afterhead"))
		}
	}
	if rapid.IntRange(0, 2).Draw(t, "frag?") == 0 {
		c.Src = drawChunkSchedule(t, bs, "src")
		c.EOFW = rapid.Bool().Draw(t, "eofwith")
	}
	if rapid.IntRange(0, 7).Draw(t, "fail?") == 0 {
		c.FailAt = rapid.IntRange(1, 12).Draw(t, "failat")
		c.FailKind = rapid.IntRange(0, 9).Draw(t, "failkind")
	}
	if rapid.IntRange(0, 4).Draw(t, "prev?") == 0 {
		p := &c18Prev{Data: drawFrameData(t, rapid.SampledFrom([]int{0, 10, 70000, 200000}).Draw(t, "prevn")),
			Sizes: rapid.SliceOfN(rapid.SampledFrom([]int{1, 5, 7, 8, 100, 4096, 70000}), 1, 3).Draw(t, "prevsizes"), Calls: rapid.IntRange(0, 6).Draw(t, "prevcalls")}
		if rapid.Bool().Draw(t, "prevfail") {
			p.FailAt = rapid.IntRange(1, 4).Draw(t, "prevfailat")
		}
		c.Prev = p
	}
	return c
}

func init() { register("C18", "C18/read", runC18) }

const c18Rule = "rapid-drawn (input x options x Read size sequence x source behaviour): inputs around the block size incl. empty and exact multiples; options block size x block checksum x content " +
	"checksum x size x level; cyclic Read buffer sizes from {0,1,2,6,7,8,15,19, compressed-block-1/0/+1, 2x, block size, block size+100, 3x block size, arbitrary}; sources with short reads, (0,nil) " +
	"reads, data+io.EOF, or a failure at call k. Oracle per call: 0 <= n <= len(p), nothing written beyond len(p), progress whenever len(p) > 0; overall: the concatenation is accepted by the " +
	"independent strict frame parser as exactly one frame whose header shows the options and whose content is the input, followed by io.EOF; an injected source error is passed through " +
	"(errors.Is). Non-trivial = at least one call filled its buffer completely (overflow pending) and >= 2 distinct buffer sizes were used; distinct by hash(input, options, sizes)."

// TestC18Pinned: 4 MiB blocks that barely compress (more than 2 MiB carried over between calls), small and odd
// buffers: the quick tier's random draw keeps to 64 KiB blocks for cost.
func TestC18Pinned(t *testing.T) {
	stat.For("C18").SetRule(c18Rule)
	if shard != 0 {
		return
	}
	for _, sizes := range [][]int{{4096}, {65536, 1}, {1 << 20, 7, 100000}, {3 << 20}} {
		for _, segs := range [][]gen.Seg{{{K: "rand", N: 3 << 20, S: 5}}, {{K: "rand", N: 4<<20 + 100, S: 6}, {K: "text", N: 70000, S: 1, P: 4}}, {{K: "text", N: 9 << 20, S: 2, P: 16}}} {
			c := c18Case{Opts: wopts{BS: 7, ContentSum: true, Conc: 1}, Data: gen.Data{Segs: segs}, Sizes: sizes}
			pinned(t, "C18", "C18/read", c, runC18)
		}
	}
}

// TestC18ZeroChecksums: incompressible inputs patched so that the checksum of the first stored block, or of the content, is 0
// (a value some code takes for "no checksum").
func TestC18ZeroChecksums(t *testing.T) {
	rec := stat.For("C18")
	rec.SetRule(c18Rule)
	if shard != 0 {
		return
	}
	for _, n := range []int{4, 20, 65536 - 12, 65536 + 65536 - 12} {
		for _, zero := range []string{"block", "content"} {
			for _, sizes := range [][]int{{4096}, {1}, {1 << 20}} {
				segs := []gen.Seg{{K: "rand", N: n, S: uint64(n)}}
				if n > 65536 {
					segs = []gen.Seg{{K: "rand", N: 65536 - 12, S: 1}, {K: "rand", N: n - 65536 + 12, S: 2}}
				}
				c := c18Case{Opts: wopts{BS: 4, BlockSum: true, ContentSum: true, Conc: 1}, Data: gen.Data{Segs: segs}, Sizes: sizes, Zero: zero}
				pinned(t, "C18", "C18/read", c, runC18)
			}
		}
	}
	if rec.ClassCount("input/xxh32-of-block-is-zero") == 0 || rec.ClassCount("input/xxh32-of-content-is-zero") == 0 {
		t.Fatalf("HARNESS PROBLEM: no zero-checksum input was produced")
	}
}

func TestC18(t *testing.T) {
	rec := stat.For("C18")
	rec.SetRule(c18Rule)
	rec.Require("nontrivial", "options/applied-in-several-calls", "sizes/aimed-at-field-boundaries", "reuse/reset-after-a-source-failure", "source-error-wrapping-EOF-passed-through", "source-error-kind-3-passed-through", "source-error-kind-4-passed-through", "sizes/below-header-size", "source-error-passed-through", "source/fragmented", "input/empty", "input/k*bs", "input/bs")
	checkProp(t, "C18", "C18/read", pick(6000, 150000), drawC18, runC18)
}
