package props

import (
	"bytes"
	"os"
	"path/filepath"
	"testing"

	"verifharness/ref"
)

func repoDir() string { return envStr("VERIF_REPO", "/repo") }

// TestRefGolden validates the independent frame reference against the golden files in the
// repository that were written by the reference lz4 CLI and still have their originals.
// A disagreement means the reference (the harness) is broken: no violation is recorded,
// the test fails, and the driver reports an infrastructure problem (exit 2).
func TestRefGolden(t *testing.T) {
	td := filepath.Join(repoDir(), "testdata")
	for _, name := range []string{"e.txt", "gettysburg.txt", "pg1661.txt", "pi.txt", "random.data", "repeat.txt", "Mark.Twain-Tom.Sawyer.txt", "pg_control.tar"} {
		raw, err := os.ReadFile(filepath.Join(td, name))
		if err != nil {
			t.Fatalf("HARNESS: %v", err)
		}
		z, err := os.ReadFile(filepath.Join(td, name+".lz4"))
		if err != nil {
			t.Fatalf("HARNESS: %v", err)
		}
		f := ref.ParseFrame(z, ref.Strict)
		if !f.OK() || f.Consumed != len(z) || !bytes.Equal(f.Content, raw) {
			t.Fatalf("HARNESS: reference frame parser disagrees with golden file %s: err=%q consumed=%d/%d content-equal=%v", name, f.Err, f.Consumed, len(z), bytes.Equal(f.Content, raw))
		}
		t.Logf("%s: FLG=%02x BD=%02x blocks=%d blocksum=%v contentsum=%v size=%v", name, f.FLG, f.BD, len(f.Blocks), f.BlockSum, f.ContentSum, f.HasSize)
	}
	// legacy golden file
	raw, err1 := os.ReadFile(filepath.Join(td, "bzImage_lz4_isolated"))
	z, err2 := os.ReadFile(filepath.Join(td, "bzImage_lz4_isolated.lz4"))
	if err1 != nil || err2 != nil {
		t.Fatalf("HARNESS: %v %v", err1, err2)
	}
	f := ref.ParseFrame(z, ref.Lenient)
	if !f.OK() || !bytes.Equal(f.Content, raw) {
		t.Fatalf("HARNESS: reference legacy parser disagrees with bzImage_lz4_isolated.lz4: err=%q trailer=%v len=%d/%d", f.Err, f.Trailer, len(f.Content), len(raw))
	}
	// the dependent-block golden file carries a content checksum: self-validating
	z, err := os.ReadFile(filepath.Join(td, "Mark.Twain-Tom.Sawyer_linked.txt.lz4"))
	if err != nil {
		t.Fatalf("HARNESS: %v", err)
	}
	f = ref.ParseFrame(z, ref.Strict)
	if !f.OK() || f.BlockIndep || !f.ContentSum {
		t.Fatalf("HARNESS: reference parser rejects the linked-block golden file: %q indep=%v", f.Err, f.BlockIndep)
	}
}
