package props

import (
	"bytes"
	"fmt"
	"testing"

	lz4 "github.com/pierrec/lz4/v4"

	"verifharness/gen"
	"verifharness/inst"
	"verifharness/ref"
	"verifharness/stat"
)

// Native (coverage-guided) fuzz targets, thorough tier only. The fuzz bytes are decoded
// into the same structured cases the rapid checks use, and the same oracles run inside the
// target, so a crasher found here is a semantic violation, not just a crash. Campaigns
// cannot be seeded; the saved input (and the replay file the oracle writes) is the
// reproducible unit.

func fuzzSeedFrames() [][]byte {
	var seeds [][]byte
	for _, o := range []wopts{{BS: 4, ContentSum: true, Conc: 1}, {BS: 4, BlockSum: true, ContentSum: true, Size: true, Conc: 1}, {BS: 4, Conc: 1, Legacy: true}, {BS: 5, BlockSum: true, Conc: 1}} {
		for _, n := range []int{0, 5, 300, 70000} {
			data := opData(n, uint64(n)+1)
			z, f := emit(o, data, "write", delivery{Mode: "write"}, nil)
			if f == nil {
				seeds = append(seeds, z)
			}
		}
	}
	// hostile constants: magics, skippable frames, huge sizes
	seeds = append(seeds,
		[]byte{0x04, 0x22, 0x4D, 0x18, 0x60, 0x40, 0x82, 0xFF, 0xFF, 0xFF, 0x7F},
		[]byte{0x02, 0x21, 0x4C, 0x18, 0x02, 0x21, 0x4C, 0x18, 0x02, 0x21, 0x4C, 0x18},
		[]byte{0x50, 0x2A, 0x4D, 0x18, 0xFF, 0xFF, 0xFF, 0xFF, 1, 2, 3},
		[]byte{0x5F, 0x2A, 0x4D, 0x18, 0, 0, 0, 0, 0x04, 0x22, 0x4D, 0x18, 0x60, 0x40, 0x82, 0, 0, 0, 0},
		[]byte{0x04, 0x22, 0x4D, 0x18, 0x6C, 0x40, 0xFF, 0xFF, 0xFF, 0xFF, 0xFF, 0xFF, 0xFF, 0xFF, 0x00, 0, 0, 0, 0},
		[]byte{0x04, 0x22, 0x4D, 0x18, 0x40, 0x40, 0xC0, 0x05, 0, 0, 0x80, 'a', 'b', 'c', 'd', 'e', 0, 0, 0, 0})
	return seeds
}

// FuzzC03 decodes (dstLen, dict, placement, src) from the fuzz bytes and applies the C03
// and C12 oracles (memory safety in both builds; equivalence of the two decoders).
func FuzzC03(f *testing.F) {
	for _, s := range loadCorpus() {
		f.Add(uint16(100), uint8(0), uint8(0), s)
		f.Add(uint16(len(s)*3), uint8(3), uint8(1), s)
	}
	f.Add(uint16(20), uint8(0), uint8(0), append(append([]byte{0xE6}, []byte("abcdefghijklmn")...), 0x0C, 0x00, 0x00))
	f.Fuzz(func(t *testing.T, dstLen uint16, dictSel uint8, flags uint8, src []byte) {
		if len(src) > 64<<10 {
			return
		}
		c := decCase{Src: src, DstLen: int(dstLen), Spare: []int{0, 1, 16, 64}[flags&3], Fill: int(flags>>2) & 3, Place: []string{"end", "start"}[(flags>>4)&1], Origin: "fuzz"}
		if dstLen == 0 && flags&0x20 != 0 {
			c.Place = "nil"
		}
		if dictSel > 0 {
			n := dictLens[int(dictSel)%len(dictLens)]
			c.Dict = make([]byte, n)
			for i := range c.Dict {
				c.Dict[i] = 'A' + byte(i%26)
			}
		}
		if fl := safely(runC03, c, stat.For("C03")); fl != nil {
			judge(t, "C03", "C03/decode", c, fl)
		}
		if fl := safely(runC12, c, stat.For("C12")); fl != nil {
			judge(t, "C12", "C12/decode", c, fl)
		}
		if fl := safely(runC04, c, stat.For("C04")); fl != nil {
			judge(t, "C04", "C04/decode", c, fl)
		}
	})
}

type c05Raw struct {
	Bytes []byte `json:"bytes"`
	R     rcfg   `json:"reader"`
}

// runC05Raw is the C05 oracle on raw bytes: a clean end of stream implies that the
// independent frame parser accepts exactly the consumed bytes with identical output.
func runC05Raw(c c05Raw, rec *stat.Rec) *stat.Failure {
	rec.Eval()
	res := readAll(c.Bytes, c.R, nil)
	if res.Err != nil {
		return nil
	}
	fr := ref.ParseFrame(c.Bytes[:res.Consumed], ref.Lenient)
	if (fr.NoFrame && len(res.Out) == 0) || fr.Legacy || fr.OutOfDom != "" || fr.Unspec != "" {
		rec.Class("out_of_domain")
		return nil
	}
	if !fr.OK() {
		sig := firstWords(stripBlockNo(fr.Err), 4)
		if fr.Truncated {
			sig = "truncated-" + lastWords(fr.Err, 3)
		}
		return stat.Failf("C05/reader-accepts-what-the-reference-rejects/"+sig, "reader %+v: clean end of stream after %d bytes (consumed %d of %d); reference: %s at %d", c.R, len(res.Out), res.Consumed, len(c.Bytes), fr.Err, fr.ErrOff)
	}
	if fr.Consumed != res.Consumed || !bytes.Equal(fr.Content, res.Out) {
		return stat.Failf("C05/output-or-extent-differs-from-reference", "reader %+v: consumed %d vs %d, output %d vs %d bytes", c.R, res.Consumed, fr.Consumed, len(res.Out), len(fr.Content))
	}
	rec.NonTrivial(stat.FP(c.Bytes, fmt.Sprint(c.R)))
	return nil
}

func FuzzC05(f *testing.F) {
	for _, s := range fuzzSeedFrames() {
		f.Add(s, uint8(0))
		f.Add(s, uint8(7))
	}
	f.Fuzz(func(t *testing.T, data []byte, mode uint8) {
		if len(data) > 256<<10 {
			return
		}
		rc := rcfg{Conc: []int{1, 2, 4, 1}[mode&3], WriteTo: mode&4 != 0, Sizes: [][]int{{65536}, {7}, {4095, 1}, {1 << 20}}[(mode>>3)&3]}
		c := c05Raw{Bytes: data, R: rc}
		if fl := safely(runC05Raw, c, stat.For("C05")); fl != nil {
			judge(t, "C05", "C05/raw", c, fl)
		}
	})
}

// FuzzC07 feeds arbitrary bytes to the Reader inside a bubble (needs the go1.26.8 build).
func FuzzC07(f *testing.F) {
	for _, s := range fuzzSeedFrames() {
		f.Add(s, uint8(0))
		f.Add(s, uint8(5))
	}
	f.Fuzz(func(t *testing.T, data []byte, mode uint8) {
		if len(data) > 256<<10 || !inst.BubbleSupported {
			return
		}
		bubbleT = t
		c := c07Case{Kind: "random", Bytes: data, Conc: []int{1, 2, 4, 1}[mode&3], WriteTo: mode&4 != 0, Sizes: [][]int{{65536}, {7}, {4095, 1}, {1}}[(mode>>3)&3]}
		if fl := safely(runC07, c, stat.For("C07")); fl != nil {
			judge(t, "C07", "C07/reader", c, fl)
		}
	})
}

func init() { register("C05", "C05/raw", runC05Raw) }

var _ = lz4.Fast

// FuzzC10 takes the fuzz bytes as the source of a block compression (compressor, HC depth and destination length from
// the other arguments) and applies the C01 (round trip), C10 (strict validity) and C11 (destination contract) oracles.
func FuzzC10(f *testing.F) {
	for _, s := range [][]byte{nil, []byte("a"), []byte("abcabcabcabcabcabcabcabcabc"), bytes.Repeat([]byte{0}, 300), bytes.Repeat([]byte("0123456789"), 40), opData(5000, 3), opData(70000, 4)} {
		f.Add(s, uint8(0), uint16(0xFFFF))
		f.Add(s, uint8(2|3<<2), uint16(0xFFFF))
		f.Add(s, uint8(3|1<<2), uint16(len(s)/2))
	}
	f.Fuzz(func(t *testing.T, data []byte, flags uint8, dstSel uint16) {
		if len(data) > 256<<10 {
			return
		}
		comp := []string{"fast-obj", "fast-pkg", "hc-obj", "hc-pkg"}[flags&3]
		depth := []uint32{0, 1, 2, 4, 16, uint32(lz4.Level1), uint32(lz4.Level5), 65536}[(flags>>2)&7]
		if len(data) > 4096 && depth != 1 {
			depth = 4
		}
		d := gen.Data{Segs: []gen.Seg{{K: "raw", N: len(data), Raw: data}}}
		bound := lz4.CompressBlockBound(len(data))
		dstLen := bound
		if dstSel != 0xFFFF {
			dstLen = int(dstSel) % (bound + 3)
		}
		cc := compCase{Data: d, Comp: comp, Depth: depth, DstLen: dstLen, Spare: []int{0, 1, 40}[int(flags>>5)%3]}
		if fl := safely(runC10, cc, stat.For("C10")); fl != nil {
			judge(t, "C10", "C10/strict", cc, fl)
		}
		if fl := safely(runC11, cc, stat.For("C11")); fl != nil {
			judge(t, "C11", "C11/dstcontract", cc, fl)
		}
		c1 := c01Case{Steps: []c01Step{{Data: d, Comp: comp, Depth: depth}}}
		if flags&0x80 != 0 {
			// a compressor that has seen the same bytes shifted by one before
			c1.Steps = append([]c01Step{{Data: gen.Data{Segs: []gen.Seg{{K: "run", N: 1, P: 'x'}, {K: "raw", N: len(data), Raw: data}}}, Comp: comp, Depth: depth}}, c1.Steps...)
		}
		if fl := safely(runC01, c1, stat.For("C01")); fl != nil {
			judge(t, "C01", "C01/roundtrip", c1, fl)
		}
	})
}
