package props

import (
	"bytes"
	"os"
	"os/exec"
	"sync"
	"testing"

	"pgregory.net/rapid"

	"verifharness/gen"
	"verifharness/ref"
	"verifharness/stat"
)

var (
	refCLIOnce sync.Once
	refCLIPath string
)

// refCLI returns the path of a reference lz4 command line tool, or "".
func refCLI() string {
	refCLIOnce.Do(func() {
		for _, p := range []string{os.Getenv("VERIF_LZ4_CLI"), "/root/miniconda/bin/lz4", "/usr/bin/lz4", "/usr/local/bin/lz4"} {
			if p != "" {
				if _, err := os.Stat(p); err == nil {
					refCLIPath = p
					return
				}
			}
		}
	})
	return refCLIPath
}

// refCLIDecode runs `lz4 -d -c` on z.
func refCLIDecode(z []byte) (ok bool, out []byte, stderr string) {
	cmd := exec.Command(refCLI(), "-d", "-c", "-q")
	cmd.Stdin = bytes.NewReader(z)
	var o, e bytes.Buffer
	cmd.Stdout, cmd.Stderr = &o, &e
	err := cmd.Run()
	return err == nil, o.Bytes(), e.String()
}

// TestRefGoldenCLI cross-checks the independent frame parser (the oracle of C05, C06, C09, C16 ...) against the reference
// lz4 command line tool, when one is installed (it is on this image: /root/miniconda/bin/lz4, v1.9.4; nothing else in the
// checks depends on it): frames from the Writer, from the independent encoder, and single mutations of them must be
// accepted by both or rejected by both, with the same content. A disagreement is a problem of the harness (exit 2), not of
// the library.
func TestRefGoldenCLI(t *testing.T) {
	cli := refCLI()
	rec := stat.For("C09")
	if cli == "" {
		rec.Class("refcli/no-reference-cli-installed")
		t.Skip("no reference lz4 CLI")
	}
	if shard != 0 {
		return
	}
	run := func(z []byte) (bool, []byte) {
		ok, out, _ := refCLIDecode(z)
		return ok, out
	}
	n := pick(250, 4000)
	setRapid(n, "C09/refcli")
	disagreements := 0
	rapid.Check(t, func(rt *rapid.T) {
		var z []byte
		if rapid.Bool().Draw(rt, "writer?") {
			o := drawWopts(rt, false, 0)
			o.Conc, o.Legacy = 1, false
			data := drawFrameData(rt, sizeAround(rt, o.blockSize(), 150<<10)).Build()
			var f *stat.Failure
			z, f = emit(o, data, "write", delivery{Mode: "write"}, nil)
			if f != nil {
				return
			}
		} else {
			spec := gen.DrawFrameSpec(rt, gen.FrameParams{Dependent: 2, MaxBlocks: 5, MaxBlockLen: 20000, Skips: true})
			z, _ = spec.Build()
		}
		mutated := false
		if rapid.IntRange(0, 2).Draw(rt, "mutate?") > 0 {
			fr0 := ref.ParseFrame(z, ref.Walk)
			z = applyMutations(z, nil, []mutation{drawMutation(rt, z, fr0, 0)})
			mutated = true
		}
		fr := ref.ParseFrame(z, ref.Strict)
		if fr.Legacy || fr.NoFrame || fr.Unspec != "" {
			rec.Class("refcli/out-of-scope")
			return
		}
		refOK := fr.OK() && fr.Consumed == len(z)
		if refOK {
			// the end-of-block rules (last 5 bytes literals, last match starts 12 bytes before the end) bind encoders; the
			// reference decoder relies on them and rejects blocks that break them, the independent parser (like the library)
			// does not police them: such frames are not compared
			pos := 0
			for _, b := range fr.Blocks {
				if !b.Raw {
					lo := pos // independent blocks: no window
					if !fr.BlockIndep {
						if lo = pos - 65536; lo < 0 {
							lo = 0
						}
					}
					res := ref.DecodeBlock(z[b.DataOff:b.DataOff+b.Size], b.Decoded, fr.Content[lo:pos])
					nm, lastM := 0, -1
					for i, q := range res.Seqs {
						if q.HasMatch {
							nm++
							lastM = i
						}
					}
					if nm > 0 {
						last := res.Seqs[len(res.Seqs)-1]
						if last.HasMatch || last.LitLen < 5 || res.Seqs[lastM].OutPos > b.Decoded-12 {
							rec.Class("refcli/block-breaks-the-end-of-block-rules(not-compared)")
							return
						}
					}
				}
				pos += b.Decoded
			}
		}
		cliOK, out := run(z)
		rec.Eval()
		rec.Class("refcli/compared")
		if mutated {
			rec.Class("refcli/compared-mutated")
		}
		if refOK != cliOK || (refOK && !bytes.Equal(out, fr.Content)) {
			disagreements++
			rt.Fatalf("HARNESS PROBLEM: the independent frame parser and %s disagree on a %d-byte frame (mutated=%v): parser ok=%v (%s at %d, consumed %d), CLI ok=%v (%d bytes out, parser content %d bytes)\n% x", cli, len(z), mutated, refOK, fr.Err, fr.ErrOff, fr.Consumed, cliOK, len(out), len(fr.Content), z[:minI(len(z), 200)])
		}
	})
	t.Logf("reference CLI %s: %d frames compared (%d of them mutated), %d not compared because a block breaks the end-of-block rules, %d out of scope", cli,
		rec.ClassCount("refcli/compared"), rec.ClassCount("refcli/compared-mutated"), rec.ClassCount("refcli/block-breaks-the-end-of-block-rules(not-compared)"), rec.ClassCount("refcli/out-of-scope"))
	_ = disagreements
}
