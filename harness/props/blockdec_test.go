package props

import (
	"bytes"
	"encoding/gob"
	"fmt"
	"io"
	"os"
	"os/exec"
	"runtime/debug"
	"sync"

	lz4 "github.com/pierrec/lz4/v4"

	"verifharness/gen"
	"verifharness/inst"
	"verifharness/ref"
)

// A block-decoding case: (src, len(dst), dict) plus where the three slices are placed.
type decCase struct {
	Src       []byte `json:"src"`
	DstLen    int    `json:"dstlen"`
	Dict      []byte `json:"dict,omitempty"`
	Spare     int    `json:"spare"`               // spare capacity behind dst (canaried)
	Fill      int    `json:"fill"`                // prior contents of dst: 0 = 0x00, 1 = 0xFF, >= 2 = pseudo-random (seed)
	Place     string `json:"place"`               // end: src/dst/dict each end at an unmapped page; start: dst starts right after one; nil: as end, but a destination of length 0 is the nil slice
	Origin    string `json:"origin"`              // how the case was generated (classification only)
	SrcSpare  int    `json:"srcspare,omitempty"`  // spare capacity behind src (filled with SparePat)
	DictSpare int    `json:"dictspare,omitempty"` // spare capacity behind dict
	SparePat  int    `json:"sparepat,omitempty"`  // content of the spare capacities of src and dict
	NoArena   bool   `json:"noarena,omitempty"`   // cases larger than the arenas: plain heap slices, canaries around dst
	DictZeros int64  `json:"dictzeros,omitempty"` // NoArena: the dictionary is this many zero bytes followed by Dict (a dictionary of 4 GiB and more without shipping it)
	HashOut   bool   `json:"hashout,omitempty"`   // NoArena: Out carries a digest of dst[:n] instead of the bytes (outputs of gigabytes)
}

type decResult struct {
	Status string // ok | error | panic | fault | canary | died
	N      int
	Out    []byte // dst[:N] when Status == ok
	Detail string
	Whole  []byte // the whole dst[:len] after the call (only kept when src or dict has spare capacity)
}

const (
	arenaSrc  = 1 << 20
	arenaDst  = 2 << 20
	arenaDict = 256 << 10
)

var (
	arenaOnce         sync.Once
	aSrc, aDst, aDict *inst.Arena
	arenaErr          error
	arenaMu           sync.Mutex
)

func arenas() error {
	arenaOnce.Do(func() {
		if aSrc, arenaErr = inst.NewArena(arenaSrc); arenaErr != nil {
			return
		}
		if aDst, arenaErr = inst.NewArena(arenaDst); arenaErr != nil {
			return
		}
		aDict, arenaErr = inst.NewArena(arenaDict)
	})
	return arenaErr
}

func prefill(dst []byte, fill int) {
	switch fill {
	case 0:
		for i := range dst {
			dst[i] = 0
		}
	case 1:
		for i := range dst {
			dst[i] = 0xFF
		}
	default:
		gen.Fill(dst, uint64(fill))
	}
}

// execDecode runs the library's block decoder of *this* build on the case, with the three
// slices in guard-page arenas and canaries around the destination.
func execDecode(c decCase) (res decResult) {
	if err := arenas(); err != nil {
		return decResult{Status: "harness", Detail: err.Error()}
	}
	if c.NoArena {
		return execDecodeHeap(c)
	}
	if len(c.Src)+c.SrcSpare > arenaSrc || c.DstLen+c.Spare+8192 > arenaDst || len(c.Dict)+c.DictSpare > arenaDict || c.DstLen < 0 {
		return decResult{Status: "harness", Detail: "case too large for the arenas"}
	}
	arenaMu.Lock()
	defer arenaMu.Unlock()
	const lead = 4096
	var src, dst, dict, before, after []byte
	if c.Place == "start" {
		src = aSrc.Start(len(c.Src))
		dict = aDict.Start(len(c.Dict))
		reg := aDst.Region()
		dst = reg[0 : c.DstLen : c.DstLen+c.Spare]
		after = reg[c.DstLen : c.DstLen+c.Spare+lead]
	} else {
		// (End fills the spare capacity with the canary pattern; it is overwritten with SparePat below)
		src = aSrc.End(len(c.Src), c.SrcSpare)
		dict = aDict.End(len(c.Dict), c.DictSpare)
		dst = aDst.End(c.DstLen, c.Spare)
		reg := aDst.Region()
		start := len(reg) - c.DstLen - c.Spare
		before = reg[start-lead : start]
		after = dst[c.DstLen : c.DstLen+c.Spare]
	}
	copy(src, c.Src)
	copy(dict, c.Dict)
	if c.Place != "start" {
		// bytes that lie within the capacity but beyond the length of src and dict: a decoder that reads them
		// makes its output depend on SparePat
		prefill(src[len(src):cap(src)], 100+c.SparePat)
		prefill(dict[len(dict):cap(dict)], 200+c.SparePat)
	}
	prefill(dst, c.Fill)
	inst.FillCanary(before)
	inst.FillCanary(after)
	if len(c.Dict) == 0 {
		dict = nil
	}
	if c.Place == "nil" && c.DstLen == 0 {
		dst = nil
	}
	old := debug.SetPanicOnFault(true)
	defer debug.SetPanicOnFault(old)
	defer func() {
		if r := recover(); r != nil {
			res = decResult{Status: "panic", Detail: fmt.Sprint(r)}
			if e, ok := r.(interface{ Addr() uintptr }); ok {
				res.Status = "fault"
				res.Detail = fmt.Sprintf("%v (address %#x)", r, e.Addr())
			}
		}
	}()
	var n int
	var err error
	if dict == nil {
		n, err = lz4.UncompressBlock(src, dst)
	} else {
		n, err = lz4.UncompressBlockWithDict(src, dst, dict)
	}
	if i := inst.CheckCanary(after); i >= 0 {
		return decResult{Status: "canary", N: n, Detail: fmt.Sprintf("byte %d after dst[:len] was modified (n=%d err=%v)", i, n, err)}
	}
	if i := inst.CheckCanary(before); i >= 0 {
		return decResult{Status: "canary", N: n, Detail: fmt.Sprintf("byte %d before dst was modified (n=%d err=%v)", i-len(before), n, err)}
	}
	if err != nil {
		r := decResult{Status: "error", N: n, Detail: err.Error()}
		if c.SrcSpare > 0 || c.DictSpare > 0 {
			r.Whole = append([]byte(nil), dst...)
		}
		return r
	}
	res = decResult{Status: "ok", N: n}
	if n >= 0 && n <= len(dst) {
		res.Out = append([]byte(nil), dst[:n]...)
	}
	if c.SrcSpare > 0 || c.DictSpare > 0 {
		res.Whole = append([]byte(nil), dst...)
	}
	return res
}

// execDecodeHeap: the same call for cases that do not fit the arenas (multi-megabyte literal runs, matches and length
// fields): heap slices, canaries in front of dst and in its spare capacity.
func execDecodeHeap(c decCase) (res decResult) {
	const lead = 4096
	back := make([]byte, lead+c.DstLen+c.Spare)
	before := back[:lead]
	dst := back[lead : lead+c.DstLen : lead+c.DstLen+c.Spare]
	after := back[lead+c.DstLen:]
	src := append([]byte(nil), c.Src...)
	var dict []byte
	if len(c.Dict) > 0 {
		dict = append([]byte(nil), c.Dict...)
	}
	if c.DictZeros > 0 {
		dict = make([]byte, c.DictZeros+int64(len(c.Dict))) // (fresh pages from the OS: nothing but the tail is ever touched)
		copy(dict[c.DictZeros:], c.Dict)
	}
	if c.DstLen < 1<<26 {
		prefill(dst, c.Fill)
	}
	inst.FillCanary(before)
	inst.FillCanary(after)
	old := debug.SetPanicOnFault(true)
	defer debug.SetPanicOnFault(old)
	defer func() {
		if r := recover(); r != nil {
			res = decResult{Status: "panic", Detail: fmt.Sprint(r)}
			if e, ok := r.(interface{ Addr() uintptr }); ok {
				res.Status = "fault"
				res.Detail = fmt.Sprintf("%v (address %#x)", r, e.Addr())
			}
		}
	}()
	var n int
	var err error
	if dict == nil {
		n, err = lz4.UncompressBlock(src, dst)
	} else {
		n, err = lz4.UncompressBlockWithDict(src, dst, dict)
	}
	if i := inst.CheckCanary(after); i >= 0 {
		return decResult{Status: "canary", N: n, Detail: fmt.Sprintf("byte %d after dst[:len] was modified (n=%d err=%v)", i, n, err)}
	}
	if i := inst.CheckCanary(before); i >= 0 {
		return decResult{Status: "canary", N: n, Detail: fmt.Sprintf("byte %d before dst was modified (n=%d err=%v)", i-len(before), n, err)}
	}
	if !bytes.Equal(src, c.Src) || (c.DictZeros == 0 && !bytes.Equal(dict, c.Dict)) || (c.DictZeros > 0 && !bytes.Equal(dict[c.DictZeros:], c.Dict)) {
		return decResult{Status: "canary", N: n, Detail: "src or dict was modified by the decoder"}
	}
	if err != nil {
		return decResult{Status: "error", N: n, Detail: err.Error()}
	}
	res = decResult{Status: "ok", N: n}
	if n >= 0 && n <= len(dst) {
		if c.HashOut {
			var h ref.XXH32Stream
			h.WriteFast(dst[:n])
			sum := h.Sum32()
			res.Out = []byte{byte(sum), byte(sum >> 8), byte(sum >> 16), byte(sum >> 24), dst[0], dst[n/2], dst[n-1]}
		} else {
			res.Out = append([]byte(nil), dst[:n]...)
		}
	}
	return res
}

// ---- the noasm twin: the same test binary built with -tags noasm, run as a server.

type twinProc struct {
	cmd *exec.Cmd
	enc *gob.Encoder
	dec *gob.Decoder
	in  io.WriteCloser
}

var (
	twinMu   sync.Mutex
	twin     *twinProc
	twinRest int
)

func twinServe() {
	dec := gob.NewDecoder(os.Stdin)
	enc := gob.NewEncoder(os.Stdout)
	for {
		var c decCase
		if err := dec.Decode(&c); err != nil {
			return
		}
		if err := enc.Encode(execDecode(c)); err != nil {
			return
		}
	}
}

func twinStart() (*twinProc, error) {
	path := os.Getenv("VERIF_TWIN")
	if path == "" {
		return nil, fmt.Errorf("VERIF_TWIN not set")
	}
	cmd := exec.Command(path)
	cmd.Env = append(os.Environ(), "VERIF_TWIN_SERVER=1")
	in, err := cmd.StdinPipe()
	if err != nil {
		return nil, err
	}
	out, err := cmd.StdoutPipe()
	if err != nil {
		return nil, err
	}
	cmd.Stderr = nil
	if err := cmd.Start(); err != nil {
		return nil, err
	}
	return &twinProc{cmd: cmd, enc: gob.NewEncoder(in), dec: gob.NewDecoder(out), in: in}, nil
}

// twinDecode runs the case in the noasm build. A twin that dies is restarted and the
// request that killed it is reported as "died".
func twinDecode(c decCase) decResult {
	twinMu.Lock()
	defer twinMu.Unlock()
	if twin == nil {
		p, err := twinStart()
		if err != nil {
			return decResult{Status: "harness", Detail: "cannot start the noasm twin: " + err.Error()}
		}
		twin = p
	}
	var res decResult
	if err := twin.enc.Encode(c); err == nil {
		if err = twin.dec.Decode(&res); err == nil {
			return res
		}
	}
	_ = twin.in.Close()
	_ = twin.cmd.Process.Kill()
	_ = twin.cmd.Wait()
	twin = nil
	twinRest++
	return decResult{Status: "died", Detail: "the noasm twin process died while decoding this case"}
}

func twinStop() {
	twinMu.Lock()
	defer twinMu.Unlock()
	if twin != nil {
		_ = twin.in.Close()
		_ = twin.cmd.Wait()
		twin = nil
	}
}

// isNoasmBuild reports whether this binary was built with -tags noasm (set in build-tagged files).
var isNoasmBuild bool
