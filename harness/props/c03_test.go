package props

import (
	"bytes"
	"fmt"
	"os"
	"path/filepath"
	"sort"
	"sync"
	"testing"

	lz4 "github.com/pierrec/lz4/v4"
	"pgregory.net/rapid"

	"verifharness/gen"
	"verifharness/ref"
	"verifharness/stat"
)

// ---- generation of block-decoding cases (shared by C03, C04, C12)

var (
	corpusOnce sync.Once
	corpus     [][]byte
)

func loadCorpus() [][]byte {
	corpusOnce.Do(func() {
		files, _ := filepath.Glob(filepath.Join(repoDir(), "fuzz/uncompress/corpus/*"))
		sort.Strings(files)
		for _, f := range files {
			if b, err := os.ReadFile(f); err == nil && len(b) > 0 && len(b) < 64<<10 {
				corpus = append(corpus, b)
			}
		}
	})
	return corpus
}

var dictLens = []int{1, 3, 4, 15, 16, 17, 18, 64, 1000, 65535, 65536, 70000, 131072}

func drawDict(t *rapid.T) []byte {
	if rapid.IntRange(0, 9).Draw(t, "dict?") < 5 {
		return nil
	}
	n := rapid.SampledFrom(dictLens).Draw(t, "dictlen")
	if rapid.Bool().Draw(t, "dictlen.any") {
		n = rapid.IntRange(1, 300).Draw(t, "dictlen.small")
	}
	d := make([]byte, n)
	gen.Fill(d, rapid.Uint64().Draw(t, "dictseed"))
	for i := range d {
		d[i] = 'A' + d[i]%26
	}
	return d
}

func mutateBlock(t *rapid.T, blk []byte) []byte {
	b := append([]byte(nil), blk...)
	if len(b) == 0 {
		return b
	}
	switch rapid.IntRange(0, 5).Draw(t, "bmut") {
	case 0:
		return b
	case 1:
		// truncate at a structural point or anywhere
		res := ref.DecodeBlock(b, 1<<22, nil)
		cut := rapid.IntRange(1, len(b)).Draw(t, "cut")
		if len(res.Seqs) > 0 && rapid.Bool().Draw(t, "structural") {
			s := rapid.SampledFrom(res.Seqs).Draw(t, "seq")
			cut = rapid.SampledFrom([]int{s.TokenPos, s.TokenPos + 1, s.LitPos, s.LitPos + s.LitLen, s.LitPos + s.LitLen + 1, s.LitPos + s.LitLen + 2}).Draw(t, "cutat")
		}
		if cut < 1 {
			cut = 1
		}
		if cut > len(b) {
			cut = len(b)
		}
		return b[:cut]
	case 2:
		i := rapid.IntRange(0, len(b)-1).Draw(t, "flipat")
		b[i] ^= 1 << uint(rapid.IntRange(0, 7).Draw(t, "bit"))
	case 3:
		i := rapid.IntRange(0, len(b)-1).Draw(t, "setat")
		b[i] = rapid.SampledFrom([]byte{0, 0xFF, 0xF0, 0x0F, 0x10, 0x01}).Draw(t, "setval")
	case 4:
		// splice the head of the block onto a tail of itself
		i := rapid.IntRange(0, len(b)).Draw(t, "splice.i")
		j := rapid.IntRange(0, len(b)).Draw(t, "splice.j")
		b = append(b[:i:i], blk[j:]...)
	default:
		b = append(b, rapid.SliceOfN(rapid.Byte(), 1, 6).Draw(t, "junk")...)
	}
	return b
}

func drawDecCase(t *rapid.T) decCase {
	var c decCase
	c.Dict = drawDict(t)
	switch k := rapid.IntRange(0, 11).Draw(t, "origin"); {
	case k <= 3:
		c.Origin = "grammar"
		c.Src = gen.DrawBlockSpec(t, len(c.Dict), false).Bytes()
	case k <= 6:
		c.Origin = "grammar-hostile"
		c.Src = gen.DrawBlockSpec(t, len(c.Dict), true).Bytes()
	case k <= 8:
		c.Origin = "compressed-mutated"
		data := gen.DrawData(t, 20000, "src").Build()
		dst := make([]byte, lz4.CompressBlockBound(len(data)))
		var n int
		if rapid.Bool().Draw(t, "hc") {
			n, _ = lz4.CompressBlockHC(data, dst, lz4.CompressionLevel(rapid.SampledFrom([]int{0, 1, 16}).Draw(t, "depth")), nil, nil)
		} else {
			n, _ = lz4.CompressBlock(data, dst, nil)
		}
		c.Src = mutateBlock(t, dst[:n])
	case k == 9:
		c.Origin = "random"
		c.Src = rapid.SliceOfN(rapid.Byte(), 0, 80).Draw(t, "bytes")
		if rapid.Bool().Draw(t, "lowtokens") {
			for i := range c.Src {
				if i%3 == 0 {
					c.Src[i] &= 0x33
				}
			}
		}
	default:
		c.Origin = "corpus"
		if cs := loadCorpus(); len(cs) > 0 {
			c.Src = mutateBlock(t, cs[rapid.IntRange(0, len(cs)-1).Draw(t, "corpus")])
		}
	}
	// destination length relative to what the block decodes to
	full := ref.DecodeBlock(c.Src, 1<<20, c.Dict)
	d := len(full.Out)
	switch rapid.IntRange(0, 9).Draw(t, "dstclass") {
	case 0, 1, 2:
		c.DstLen = d
	case 3:
		c.DstLen = d - 1
	case 4:
		c.DstLen = d + 1
	case 5, 6:
		c.DstLen = d + rapid.IntRange(0, 48).Draw(t, "dst+k")
	case 7:
		c.DstLen = d - rapid.IntRange(1, 24).Draw(t, "dst-k")
	case 8:
		c.DstLen = rapid.IntRange(0, 2*d+16).Draw(t, "dstany")
	default:
		c.DstLen = 0
	}
	if c.DstLen < 0 {
		c.DstLen = 0
	}
	if c.DstLen > 1<<20 {
		c.DstLen = 1 << 20
	}
	if rapid.IntRange(0, 3).Draw(t, "srcspare?") == 0 {
		c.SrcSpare = rapid.SampledFrom([]int{1, 8, 64, 300}).Draw(t, "srcspare")
		if len(c.Dict) > 0 {
			c.DictSpare = rapid.SampledFrom([]int{0, 8, 64}).Draw(t, "dictspare")
		}
	}
	c.Spare = rapid.SampledFrom([]int{0, 0, 1, 16, 64, 4096}).Draw(t, "spare")
	c.Fill = rapid.SampledFrom([]int{0, 1, 2, 3}).Draw(t, "fill")
	c.Place = rapid.SampledFrom([]string{"end", "end", "start"}).Draw(t, "place")
	if c.DstLen == 0 && rapid.Bool().Draw(t, "nildst") {
		c.Place = "nil" // a destination of length 0 may well be a nil slice
	}
	return c
}

// classifyDec labels a decoding case (shared by C03/C04/C12). It returns whether the
// decoder gets past the first token into a match or an extended length, and the verdict.
func classifyDec(rec *stat.Rec, c decCase, full ref.BlockResult) bool {
	deep := false
	dictTouched, overlap := false, false
	for _, s := range full.Seqs {
		if s.HasMatch || s.ExtLit > 0 {
			deep = true
		}
		if s.FromDict > 0 {
			dictTouched = true
		}
		if s.Overlap {
			overlap = true
		}
	}
	rec.Class("origin/"+c.Origin, "place/"+c.Place, "ref/"+full.Kind.String())
	if full.Kind != ref.OK {
		rec.Class("ref/" + full.Kind.String() + "/" + full.Why)
	}
	if len(c.Dict) > 0 {
		rec.Class("dict/present")
	}
	if dictTouched {
		rec.Class("dict/touched-by-a-match")
	}
	if overlap {
		rec.Class("match/overlapping")
	}
	if c.Spare > 0 {
		rec.Class("dst/spare-capacity")
	}
	// distance between the end of the decoded data and the end of dst (where the wide copies switch paths)
	if d := c.DstLen - len(full.Out); d >= 0 && d <= 48 {
		rec.Class(fmt.Sprintf("dst/room-after-output=%02d..%02d", d/8*8, d/8*8+7))
	}
	if n := len(full.Seqs); n > 0 {
		if tail := full.Seqs[n-1]; !tail.HasMatch && tail.LitLen <= 48 {
			rec.Class(fmt.Sprintf("src/final-literals=%02d..%02d", tail.LitLen/8*8, tail.LitLen/8*8+7))
		}
	}
	return deep
}

// ---------------------------------------------------------------- C03

func c03Judge(build string, c decCase, r decResult) *stat.Failure {
	switch r.Status {
	case "error":
		return nil
	case "ok":
		if r.N < 0 || r.N > c.DstLen {
			return stat.Failf("C03/"+build+"/n-exceeds-len(dst)", "len(src)=%d len(dst)=%d len(dict)=%d spare=%d place=%s: returned n=%d, nil", len(c.Src), c.DstLen, len(c.Dict), c.Spare, c.Place, r.N)
		}
		return nil
	case "harness":
		return stat.Failf("harness-problem", "%s", r.Detail)
	}
	return stat.Failf("C03/"+build+"/"+r.Status, "len(src)=%d len(dst)=%d len(dict)=%d spare=%d place=%s origin=%s: %s", len(c.Src), c.DstLen, len(c.Dict), c.Spare, c.Place, c.Origin, r.Detail)
}

func runC03(c decCase, rec *stat.Rec) *stat.Failure {
	rec.Eval()
	full := ref.DecodeBlock(c.Src, c.DstLen, c.Dict)
	deep := classifyDec(rec, c, full)
	local := execDecode(c)
	if f := c03Judge(localBuild(), c, local); f != nil {
		return f
	}
	tw := twinDecode(c)
	if f := c03Judge("noasm", c, tw); f != nil {
		return f
	}
	if (c.SrcSpare > 0 || c.DictSpare > 0) && c.Place != "start" {
		// reads outside src / dict that stay inside their capacity cannot fault; they show when the bytes lying there
		// change: the whole destination (and the outcome) must not depend on them
		rec.Class("src-or-dict/spare-capacity(read-outside-shows-as-a-difference)")
		c2 := c
		c2.SparePat = c.SparePat + 1
		for bi, run := range []func(decCase) decResult{execDecode, twinDecode} {
			first := []decResult{local, tw}[bi]
			second := run(c2)
			if second.Status != first.Status || second.N != first.N || !bytes.Equal(second.Whole, first.Whole) {
				return stat.Failf("C03/"+[]string{localBuild(), "noasm"}[bi]+"/result-depends-on-bytes-beyond-len(src)-or-len(dict)", "len(src)=%d (+%d spare) len(dict)=%d (+%d spare) len(dst)=%d: with other bytes in the spare capacity: %s n=%d vs %s n=%d, destination differs at %d",
					len(c.Src), c.SrcSpare, len(c.Dict), c.DictSpare, c.DstLen, first.Status, first.N, second.Status, second.N, firstDiff(first.Whole, second.Whole))
			}
		}
	}
	rec.Class("outcome/asm="+local.Status, "outcome/noasm="+tw.Status)
	if deep {
		rec.NonTrivial(stat.FP(c.Src, c.DstLen, c.Dict, c.Place, c.Spare))
		rec.Class("nontrivial")
	}
	rec.Sample(map[string]interface{}{"origin": c.Origin, "len(src)": len(c.Src), "len(dst)": c.DstLen, "len(dict)": len(c.Dict), "spare": c.Spare, "place": c.Place, "reference": full.Kind.String() + " " + full.Why, "asm": local.Status, "noasm": tw.Status})
	return nil
}

func localBuild() string {
	if isNoasmBuild {
		return "noasm"
	}
	return "asm"
}

// ---------------------------------------------------------------- C04

func c04Judge(build string, c decCase, full ref.BlockResult, r decResult) *stat.Failure {
	shape := fmt.Sprintf("len(src)=%d len(dst)=%d len(dict)=%d origin=%s", len(c.Src), c.DstLen, len(c.Dict), c.Origin)
	switch full.Kind {
	case ref.OK:
		if r.Status != "ok" {
			return stat.Failf("C04/"+build+"/well-formed-block-rejected", "%s: reference decodes %d bytes, library: %s %s", shape, len(full.Out), r.Status, r.Detail)
		}
		if r.N != len(full.Out) || !bytes.Equal(r.Out, full.Out) {
			return stat.Failf("C04/"+build+"/decoded-bytes-differ", "%s: reference %d bytes, library n=%d, first difference at %d", shape, len(full.Out), r.N, firstDiff(r.Out, full.Out))
		}
	case ref.ERR:
		if r.Status == "ok" {
			return stat.Failf("C04/"+build+"/invalid-block-accepted/"+full.Why, "%s: reference says %s, library returned n=%d, nil", shape, full.Why, r.N)
		}
	case ref.UNSPEC:
		if r.Status == "ok" && (r.N != len(full.Out) || !bytes.Equal(r.Out, full.Out)) {
			return stat.Failf("C04/"+build+"/decoded-bytes-differ-on-"+full.Why, "%s: library accepted and returned n=%d, the sequences define %d bytes", shape, r.N, len(full.Out))
		}
	}
	return nil
}

func runC04(c decCase, rec *stat.Rec) *stat.Failure {
	rec.Eval()
	full := ref.DecodeBlock(c.Src, c.DstLen, c.Dict)
	classifyDec(rec, c, full)
	var first [2]decResult
	for i, fill := range []int{0, 1, 2 + c.Fill} {
		cc := c
		cc.Fill = fill
		for bi, run := range []func(decCase) decResult{execDecode, twinDecode} {
			build := []string{localBuild(), "noasm"}[bi]
			r := run(cc)
			if r.Status != "ok" && r.Status != "error" {
				if r.Status == "harness" {
					return stat.Failf("harness-problem", "%s", r.Detail)
				}
				rec.Class("skipped/memory-safety-failure-belongs-to-C03")
				return stat.Failf("C04/"+build+"/abnormal-"+r.Status, "%s", r.Detail)
			}
			if f := c04Judge(build, cc, full, r); f != nil {
				return f
			}
			if i == 0 {
				first[bi] = r
			} else if r.Status != first[bi].Status || (r.Status == "ok" && (r.N != first[bi].N || !bytes.Equal(r.Out, first[bi].Out))) {
				return stat.Failf("C04/"+build+"/result-depends-on-prior-dst-contents", "len(src)=%d len(dst)=%d len(dict)=%d: fill %d gives (%s, n=%d), fill 0 gives (%s, n=%d)", len(c.Src), c.DstLen, len(c.Dict), fill, r.Status, r.N, first[bi].Status, first[bi].N)
			}
		}
	}
	interesting := false
	nm := 0
	for _, s := range full.Seqs {
		if s.HasMatch {
			nm++
			if s.FromDict > 0 || s.Overlap || s.ExtMatch > 0 || s.ExtLit > 0 || s.Offset == s.OutPos || s.Offset == s.OutPos+1 || s.Offset == s.OutPos+len(c.Dict) {
				interesting = true
			}
		}
	}
	if nm > 0 && interesting {
		rec.NonTrivial(stat.FP(c.Src, c.Dict, c.DstLen))
		rec.Class("nontrivial")
	}
	rec.Sample(map[string]interface{}{"origin": c.Origin, "len(src)": len(c.Src), "len(dst)": c.DstLen, "len(dict)": len(c.Dict), "reference": full.Kind.String() + " " + full.Why, "matches": nm})
	return nil
}

// ---------------------------------------------------------------- C12

func runC12(c decCase, rec *stat.Rec) *stat.Failure {
	rec.Eval()
	var full ref.BlockResult
	if c.HashOut || c.DictZeros > 0 {
		// (gigabyte-sized cases: the byte-at-a-time reference is not run, the two builds are compared with each other)
		full.Kind, full.Why = ref.UNSPEC, "reference-not-run(huge case)"
	} else {
		full = ref.DecodeBlock(c.Src, c.DstLen, c.Dict)
	}
	deep := classifyDec(rec, c, full)
	a, b := execDecode(c), twinDecode(c)
	if a.Status == "harness" || b.Status == "harness" {
		return stat.Failf("harness-problem", "%s %s", a.Detail, b.Detail)
	}
	norm := func(r decResult) string {
		if r.Status == "ok" || r.Status == "error" {
			return r.Status
		}
		return "abnormal(" + r.Status + ")"
	}
	shape := fmt.Sprintf("len(src)=%d len(dst)=%d len(dict)=%d origin=%s reference=%s %s", len(c.Src), c.DstLen, len(c.Dict), c.Origin, full.Kind, full.Why)
	if norm(a) != norm(b) {
		return stat.Failf("C12/outcome-differs/asm="+norm(a)+"/noasm="+norm(b), "%s: asm: %s n=%d %s; noasm: %s n=%d %s", shape, a.Status, a.N, a.Detail, b.Status, b.N, b.Detail)
	}
	if a.Status == "ok" {
		if a.N != b.N {
			return stat.Failf("C12/length-differs", "%s: asm n=%d, noasm n=%d", shape, a.N, b.N)
		}
		if !bytes.Equal(a.Out, b.Out) {
			return stat.Failf("C12/bytes-differ", "%s: n=%d, first difference at %d", shape, a.N, firstDiff(a.Out, b.Out))
		}
		rec.Class("agree/both-ok")
	} else {
		rec.Class("agree/both-" + norm(a))
	}
	if deep {
		rec.NonTrivial(stat.FP(c.Src, c.DstLen, c.Dict, c.Place))
		rec.Class("nontrivial")
	}
	rec.Sample(map[string]interface{}{"origin": c.Origin, "len(src)": len(c.Src), "len(dst)": c.DstLen, "len(dict)": len(c.Dict), "both": a.Status, "n": a.N})
	return nil
}

func init() {
	register("C03", "C03/decode", runC03)
	register("C04", "C04/decode", runC04)
	register("C12", "C12/decode", runC12)
}

const decGenRule = "(src, len(dst), dict, placement) from: the block grammar (token, extended lengths, literals, offset, extended match length; length classes {0,1,14,15,15+255k..}, " +
	"offset classes {1..18, start of output, last/first dictionary byte, inside/straddling the dictionary, 0, beyond the dictionary, 65535}), valid and hostile (zero offsets, " +
	"non-zero end nibble, missing final sequence, truncation); real compressor output mutated (truncation at structural points, flips, substitutions, splices, junk); random " +
	"bytes; the repository's fuzz/uncompress corpus mutated. len(dst) relative to the decoded size: exact, -1, +1, +0..48, -1..24, 0, arbitrary; spare capacity {0,1,16,64,4096}; " +
	"dictionary lengths {1,3,4,15..18,64,1000,65535,65536,70000,131072}. src, dst, dict live in mmap arenas ending (or starting) at PROT_NONE pages, canaries around dst. " +
	"Pinned big cases (heap slices with canaries): literal runs of 2^20-1..3*2^20 followed by a match, match/literal length fields adding up to 2^32+k, overlapping matches of 26 MiB at offsets 3/7/10, " +
	"zero runs of 4094..70000 at offset 1 followed by matches into the dictionary. Tail shapes enumerated (14 364): a last sequence with literal length 0..18 x match nibble {0,1,4,13,14,15} x offset " +
	"{1,4,7,8,16,18,40}, the block ending right after the match / with a 00 token / with five literals, the destination exact or with 1, 16, 32, 33, 48 bytes of room (as length or as spare capacity). "

func TestC03Pinned(t *testing.T) {
	stat.For("C03").SetRule(decGenRule)
	// the anchor case of the portable decoder: shortcut 2 overflowing dst followed by a final 00 token
	src := append([]byte{0xE6}, []byte("abcdefghijklmn")...)
	src = append(src, 0x0C, 0x00, 0x00)
	for dl := 14; dl <= 40; dl++ {
		for _, spare := range []int{0, 64} {
			for _, place := range []string{"end", "start"} {
				pinned(t, "C03", "C03/decode", decCase{Src: src, DstLen: dl, Spare: spare, Place: place, Origin: "pinned"}, runC03)
			}
		}
	}
	for _, blk := range loadCorpus() {
		for _, dl := range []int{0, 1, 100, 65536} {
			pinned(t, "C03", "C03/decode", decCase{Src: blk, DstLen: dl, Spare: 16, Place: "end", Origin: "corpus"}, runC03)
		}
		pinned(t, "C03", "C03/decode", decCase{Src: blk, Place: "nil", Origin: "corpus"}, runC03)
	}
	// a nil destination (length 0), with and without a dictionary: every first token x a few continuations
	for tok := 0; tok < 256; tok++ {
		for _, n := range []int{1, 2, 3, 17, 18, 19, 33, 64} {
			src := make([]byte, n)
			gen.Fill(src, uint64(tok*131+n))
			src[0] = byte(tok)
			if n > 2 && tok%3 == 0 {
				src[n-1] = 0
			}
			pinned(t, "C03", "C03/decode", decCase{Src: src, Place: "nil", Origin: "pinned"}, runC03)
			pinned(t, "C03", "C03/decode", decCase{Src: src, Place: "nil", Dict: []byte("0123456789abcdefghij"), Origin: "pinned"}, runC03)
		}
	}
}

func TestC03(t *testing.T) {
	rec := stat.For("C03")
	rec.SetRule(decGenRule + "Oracle: both decoders (assembly in process, portable through the noasm twin process) return an error or 0 <= n <= len(dst), no panic or fault escapes, " +
		"canaries intact. Non-trivial = the decoder gets past the first token into a match or an extended length; distinct by hash(src, len(dst), dict, placement).")
	rec.Require("nontrivial", "src-or-dict/spare-capacity(read-outside-shows-as-a-difference)", "dict/touched-by-a-match", "dst/spare-capacity", "place/start", "place/end", "outcome/asm=ok", "outcome/asm=error", "outcome/noasm=ok", "outcome/noasm=error", "dst/room-after-output=00..07", "dst/room-after-output=16..23", "dst/room-after-output=40..47", "src/final-literals=00..07", "src/final-literals=16..23")
	checkProp(t, "C03", "C03/decode", pick(100000, 2500000), drawDecCase, runC03)
}

func TestC04(t *testing.T) {
	rec := stat.For("C04")
	rec.SetRule(decGenRule + "Oracle: the independent byte-at-a-time decoder: OK => same length and bytes; ERR (zero offset, offset before the dictionary, truncated sequence, output larger " +
		"than dst) => error; shapes the property does not rule on (block ending right after a match, non-zero end nibble, empty source) => only 'if accepted, the bytes the sequences define'. " +
		"Each case is decoded with dst pre-filled 0x00, 0xFF and pseudo-random; results must be identical. Both builds. Non-trivial = >= 1 match and one of {dictionary touched, overlap, " +
		"extended length, offset at a boundary}; distinct by hash(block, dict, len(dst)).")
	rec.Require("nontrivial", "dict/touched-by-a-match", "match/overlapping", "ref/OK", "ref/ERR/"+ref.EZeroOffset, "ref/ERR/"+ref.EOffsetBefore, "ref/ERR/"+ref.ETruncated, "ref/ERR/"+ref.EOutputTooBig)
	checkProp(t, "C04", "C04/decode", pick(50000, 1200000), drawDecCase, runC04)
}

func TestC12(t *testing.T) {
	rec := stat.For("C12")
	rec.SetRule(decGenRule + "Oracle: the assembly decoder (in process) and the portable decoder (noasm twin process, same case) give the same success-or-error outcome, the same n and " +
		"the same dst[:n]. Non-trivial as C03.")
	rec.Require("nontrivial", "agree/both-ok", "agree/both-error", "dict/touched-by-a-match")
	checkProp(t, "C12", "C12/decode", pick(100000, 2500000), drawDecCase, runC12)
}
