package props

import (
	"bytes"
	"errors"
	"fmt"
	"io"
	"math"
	"os"
	"runtime"
	"strings"
	"sync"
	"sync/atomic"
	"testing"
	"time"

	lz4 "github.com/pierrec/lz4/v4"
	"pgregory.net/rapid"

	"verifharness/gen"
	"verifharness/inst"
	"verifharness/ref"
	"verifharness/stat"
)

// C07: the Reader terminates safely on arbitrary input.

type c07Case struct {
	Kind  string         `json:"kind"` // random | mutated | hostile | skippable | repeat
	Bytes []byte         `json:"bytes,omitempty"`
	Base  *frameSrc      `json:"base,omitempty"`
	Muts  []mutation     `json:"muts,omitempty"`
	Spec  *gen.FrameSpec `json:"spec,omitempty"`
	// repeat: Prefix + Unit x Count + Suffix, produced lazily
	Prefix  []byte `json:"prefix,omitempty"`
	Unit    []byte `json:"unit,omitempty"`
	Count   int    `json:"count,omitempty"`
	Suffix  []byte `json:"suffix,omitempty"`
	Conc    int    `json:"conc"`
	WriteTo bool   `json:"writeto"`
	Sizes   []int  `json:"sizes,omitempty"`
	Grow    bool   `json:"grow,omitempty"` // WriteTo into a destination that can be asked to grow (a bytes.Buffer): the meter covers what it is told to allocate
	// Slow: the consumer pauses (virtual time, inside the bubble) before every Read call / inside every Write call it receives, so that
	// the Reader's goroutines run ahead as far as they ever will; at exponentially spaced steps the heap that is still REACHABLE is
	// measured (runtime.GC, then HeapAlloc). What is held must not depend on how many blocks the input has.
	Slow bool `json:"slow,omitempty"`
}

// liveMeter measures the reachable heap at steps 1, 2, 4, 8 ... of a slow consumer.
type liveMeter struct {
	base, peak uint64
	step, next int
}

func liveHeap() uint64 {
	var ms runtime.MemStats
	runtime.GC()
	runtime.ReadMemStats(&ms)
	return ms.HeapAlloc
}

func (m *liveMeter) start() {
	// (what earlier cases left in the buffer pools is dropped first: a pool is emptied by two collections)
	runtime.GC()
	runtime.GC()
	m.base, m.next = liveHeap(), 1
}

func (m *liveMeter) pause() {
	time.Sleep(time.Millisecond) // (virtual: returns once every goroutine of the Reader is blocked)
	m.step++
	if m.step < m.next {
		return
	}
	m.next *= 2
	h := liveHeap()
	if h > m.base && h-m.base > m.peak {
		m.peak = h - m.base
	}
}

// slowSink keeps the first MiB of what it is given and pauses in every Write.
type slowSink struct {
	m     *liveMeter
	buf   []byte
	total int
	limit int
}

func (k *slowSink) Write(p []byte) (int, error) {
	k.m.pause()
	if k.total+len(p) > k.limit {
		return 0, inst.ErrSinkFull
	}
	if len(k.buf) < 1<<20 {
		k.buf = append(k.buf, p...)
	}
	k.total += len(p)
	return len(p), nil
}

// c07LiveBound: what a Reader may keep reachable whatever the input: two buffers of the block maximum (4 MiB; compressed and decoded)
// per block in flight, about concurrency + 3 blocks in flight, as much again in the buffer pools, plus the first MiB of output.
func c07LiveBound(conc int) uint64 {
	k := concOf(conc)
	if k > 64 {
		k = 64
	}
	return uint64(64<<20) + uint64(k)*uint64(24<<20)
}

// growSink: a bounded bytes.Buffer (Grow, ReadFrom, WriteString ... are promoted).
type growSink struct {
	bytes.Buffer
	limit int
}

func (g *growSink) Write(p []byte) (int, error) {
	if g.Len()+len(p) > g.limit {
		return 0, inst.ErrSinkFull
	}
	return g.Buffer.Write(p)
}

func (c c07Case) input() []byte {
	switch c.Kind {
	case "mutated":
		z, _, f := c.Base.build()
		if f != nil {
			return nil
		}
		return applyMutations(z, nil, c.Muts)
	case "hostile", "skippable":
		z, _ := c.Spec.Build()
		return z
	case "legacygrow":
		// a legacy frame of Count stored ("raw bit") blocks, block i being as large as the compression bound of block i-1
		// (block 0: of 8 MiB): a limit derived from the previous block instead of the format's block size grows without end
		z := []byte{0x02, 0x21, 0x4C, 0x18}
		size := 8 << 20
		for i := 0; i < c.Count; i++ {
			size = ref.BlockBound(size)
			w := uint32(size) | 0x80000000
			z = append(z, byte(w), byte(w>>8), byte(w>>16), byte(w>>24))
			blk := make([]byte, size)
			for j := range blk {
				blk[j] = byte('A' + i)
			}
			z = append(z, blk...)
		}
		return z
	}
	return c.Bytes
}

// allocation bound: the pooled block buffers (at most 8 MiB each; a handful per Reader and
// per concurrency slot), the dependent-block window, plus a few times the input. Hostile
// length fields used by the generator are >= 2^30, so a proportional allocation is unmistakable.
func c07AllocBound(inputLen int64, conc int) uint64 {
	k := concOf(conc)
	if k > 64 {
		k = 64 // (an absurd concurrency setting does not buy a larger allowance)
	}
	return uint64(96<<20) + uint64(k)*uint64(20<<20) + 6*uint64(inputLen)
}

type c07Out struct {
	out      []byte
	err      error
	consumed int64
	alloc    uint64
	live     uint64 // Slow cases: the largest reachable heap seen, over the one before the Reader was made
}

func c07Read(c c07Case, src io.Reader, consumed func() int64) (o c07Out) {
	var ms0, ms1 runtime.MemStats
	runtime.ReadMemStats(&ms0)
	rd := lz4.NewReader(src)
	if err := rd.Apply(lz4.ConcurrencyOption(c.Conc)); err != nil {
		o.err = err
		return o
	}
	limit := 64 << 20 // keep the output bounded: only termination matters beyond that
	var meter liveMeter
	if c.Slow {
		meter.start()
		defer func() { o.live = meter.peak }()
	}
	if c.WriteTo && c.Slow {
		sink := &slowSink{m: &meter, limit: limit}
		_, o.err = rd.WriteTo(sink)
		o.out = sink.buf
	} else if c.WriteTo && c.Grow {
		sink := &growSink{limit: limit}
		_, o.err = rd.WriteTo(sink)
		o.out = sink.Bytes()
	} else if c.WriteTo {
		sink := &inst.Sink{Cap: limit}
		_, o.err = rd.WriteTo(sink)
		o.out = sink.Buf
	} else {
		buf := make([]byte, 1<<16)
		total := 0
		for i := 0; ; i++ {
			sz := 4096
			if len(c.Sizes) > 0 {
				sz = c.Sizes[i%len(c.Sizes)]
			}
			if sz > len(buf) {
				sz = len(buf)
			}
			if sz < 1 {
				sz = 1
			}
			if c.Slow {
				meter.pause()
			}
			n, err := rd.Read(buf[:sz])
			if total < 1<<20 {
				o.out = append(o.out, buf[:n]...)
			}
			total += n
			if err != nil {
				o.err = err
				break
			}
			if total > limit {
				o.err = inst.ErrSinkFull
				break
			}
		}
		if o.err == io.EOF {
			o.err = nil
		}
	}
	runtime.ReadMemStats(&ms1)
	o.alloc = ms1.TotalAlloc - ms0.TotalAlloc
	o.consumed = consumed()
	return o
}

func runC07(c c07Case, rec *stat.Rec) *stat.Failure {
	if !inst.BubbleSupported {
		return stat.Failf("harness-problem", "C07 must be built with Go >= 1.25 (testing/synctest)")
	}
	rec.Eval()
	var o c07Out
	var inputLen int64
	var in []byte
	run := func() {
		if c.Kind == "repeat" || c.Kind == "skipbig" {
			src := &inst.RepeatSource{Prefix: c.Prefix, Unit: c.Unit, Count: c.Count, Suffix: c.Suffix}
			inputLen = int64(len(c.Prefix)) + int64(len(c.Unit))*int64(c.Count) + int64(len(c.Suffix))
			o = c07Read(c, src, src.Consumed)
			return
		}
		in = c.input()
		inputLen = int64(len(in))
		src := &inst.Source{Data: in}
		o = c07Read(c, src, func() int64 { return int64(src.Consumed()) })
	}
	verdict, detail := inst.RunBubble(bubbleT, run)
	mode := "seq"
	if concOf(c.Conc) > 1 {
		mode = "conc"
	}
	desc := fmt.Sprintf("kind %s, %d input bytes, concurrency %d, writeto=%v sizes=%v", c.Kind, inputLen, c.Conc, c.WriteTo, c.Sizes)
	if c.Kind == "repeat" {
		u := c.Unit
		if len(u) > 8 {
			u = u[:8]
		}
		desc += fmt.Sprintf(", prefix % x, unit % x.. x %d", c.Prefix, u, c.Count)
	}
	if c.Kind == "skipbig" {
		// the announced bytes are all there: exactly they must be skipped, then the empty frame read to a clean end
		if o.err != nil || len(o.out) != 0 || o.consumed != inputLen {
			return stat.Failf("C07/huge-skippable-frame-not-skipped-exactly", "skippable length %d present in full, then an empty frame: reader returned %v after consuming %d of %d bytes", inputLen-8-11, o.err, o.consumed, inputLen)
		}
		rec.Class("skippable/huge-skipped-exactly")
	}
	switch verdict {
	case "deadlock":
		return stat.Failf("C07/reader-blocks-forever/"+mode+"/"+c.Kind, "%s: %s", desc, detail)
	case "leak":
		if o.err == nil || errors.Is(o.err, inst.ErrSinkFull) {
			// clean end of stream (or our own output cap): goroutines must be gone after the end of the stream;
			// the output cap abandons the stream, which is not judged
			if errors.Is(o.err, inst.ErrSinkFull) {
				rec.Class("abandoned/output-cap")
				break
			}
		}
		return stat.Failf("C07/goroutines-stuck-after-"+map[bool]string{true: "end-of-stream", false: "error"}[o.err == nil]+"/"+mode, "%s: reader returned %v; %s", desc, o.err, detail)
	case "panic":
		return stat.Failf("C07/panic/"+mode+"/"+c.Kind, "%s: %s", desc, detail)
	}
	// (cumulative allocation is proportional to the number of blocks - each block legitimately takes pooled buffers of the
	// block maximum - so the meter is only meaningful for the short inputs, which are the ones that carry hostile length fields)
	if bound := c07AllocBound(inputLen, c.Conc); c.Kind != "repeat" && c.Kind != "skipbig" && o.alloc > bound {
		return stat.Failf("C07/allocation-proportional-to-attacker-controlled-field/"+mode, "%s: %d bytes allocated while decoding (bound %d)", desc, o.alloc, bound)
	}
	// what the Reader keeps reachable while a slow consumer lets it run ahead
	if c.Slow {
		rec.Class("slow-consumer/" + mode)
		if os.Getenv("VERIF_DEBUG") != "" {
			fmt.Fprintf(os.Stderr, "DEBUG slow %s live=%d MiB alloc=%d MiB err=%v\n", desc, o.live>>20, o.alloc>>20, o.err)
		}
		if bound := c07LiveBound(c.Conc); o.live > bound {
			return stat.Failf("C07/memory-held-grows-with-the-number-of-blocks/"+mode, "%s: with a slow consumer %d bytes of heap were reachable at once while decoding (bound %d, whatever the number of blocks)", desc, o.live, bound)
		}
	}
	// the declared block maximum: a block that is larger than the format allows (legacy: the compression bound of 8 MiB) must
	// not be taken in at all - the independent parser rejects the frame for that reason and the Reader ends without error
	if c.Kind == "legacygrow" && c.Count >= 2 {
		// (whether the Reader honours the "stored" bit in a legacy size word is not C07's business; the second block is larger
		// than the compression bound of the legacy block size with or without that bit)
		rec.Class("block-larger-than-the-declared-maximum")
		if o.err == nil {
			return stat.Failf("C07/block-larger-than-the-declared-maximum-is-read/"+mode, "%s: %d legacy blocks, each as large as the compression bound of the one before (the second: %d bytes, the bound of an 8 MiB block is %d): the Reader allocated and read them and ended without error after %d bytes of output",
				desc, c.Count, ref.BlockBound(ref.BlockBound(8<<20)), ref.BlockBound(8<<20), len(o.out))
		}
	}
	if c.Kind == "hostile" && len(in) < 1<<20 {
		if fr := ref.ParseFrame(in, ref.Lenient); !fr.OK() && !fr.Legacy && strings.Contains(fr.Err, "exceeds the block maximum") {
			rec.Class("block-larger-than-the-declared-maximum")
			if o.err == nil {
				return stat.Failf("C07/block-larger-than-the-declared-maximum-is-read/"+mode, "%s: reference: %s; the Reader ended without error after %d bytes of output", desc, fr.Err, len(o.out))
			}
		}
	}
	// first-word classification
	if c.Kind != "repeat" && len(in) >= 4 {
		w := uint32(in[0]) | uint32(in[1])<<8 | uint32(in[2])<<16 | uint32(in[3])<<24
		if !isMagic(w) {
			rec.Class("firstword/non-magic")
			if !errors.Is(o.err, lz4.ErrInvalidFrame) {
				sig := "C07/non-magic-first-word-not-reported-as-invalid-frame"
				if w>>8 == ref.MagicSkipFirst>>8 {
					sig += "/0x184D2Axx-outside-50..5F"
				}
				return stat.Failf(sig, "%s: first word %08x, reader returned %v after %d bytes", desc, w, o.err, len(o.out))
			}
		}
	}
	if c.Kind == "skippable" {
		// valid frame behind skippable frames: exactly the announced bytes are skipped
		z, content := c.Spec.Build()
		hostile := false
		for _, s := range c.Spec.Skips {
			if s.LenWord != nil {
				hostile = true
			}
		}
		if !hostile {
			if o.err != nil || !bytes.Equal(o.out, content) || o.consumed != int64(len(z)-len(c.Spec.Trail)) {
				return stat.Failf("C07/skippable-frame-not-skipped-exactly", "%s: %d skippable frames then a valid frame of %d content bytes: reader returned %v, %d bytes, consumed %d of %d", desc, len(c.Spec.Skips), len(content), o.err, len(o.out), o.consumed, len(z))
			}
			rec.Class("skippable/skipped-exactly")
		} else {
			rec.Class("skippable/hostile-length")
			if o.err == nil {
				return stat.Failf("C07/skippable-length-beyond-input-accepted", "%s: reader finished cleanly", desc)
			}
		}
	}
	rec.Class("kind/"+c.Kind, "mode/"+mode)
	if o.err == nil {
		rec.Class("outcome/clean-end-of-stream")
	} else {
		rec.Class("outcome/error")
	}
	past := c.Kind == "repeat" || c.Kind == "skipbig" || c.Kind == "skippable"
	if len(in) >= 4 {
		w := uint32(in[0]) | uint32(in[1])<<8 | uint32(in[2])<<16 | uint32(in[3])<<24
		if isMagic(w) {
			past = true
		}
	}
	if past || c.Kind == "random" {
		pre := in
		if len(pre) > 65536 {
			pre = pre[:65536]
		}
		rec.NonTrivial(stat.FP(c.Kind, pre, inputLen, c.Conc, c.WriteTo, fmt.Sprint(c.Sizes), c.Unit, c.Count))
		if past {
			rec.Class("nontrivial/past-the-magic")
		}
	}
	rec.Sample(map[string]interface{}{"kind": c.Kind, "input bytes": inputLen, "concurrency": c.Conc, "writeto": c.WriteTo, "outcome": fmt.Sprint(o.err), "output bytes": len(o.out), "allocated": o.alloc, "reachable at once (slow consumer)": o.live})
	return nil
}

func u32(v uint32) *uint32 { return &v }
func u64(v uint64) *uint64 { return &v }

var hostileSizeWords = []uint32{0x7FFFFFFF, 0xFFFFFFFF, 0x80000001, 0x40000000, 0xC0000000, 0x7FFFFFFE, 1 << 30, 0x80000000 | 1<<30, 65537, 0x80010001, 4<<20 + 1}

func drawC07(t *rapid.T) c07Case {
	var c c07Case
	c.Conc = rapid.SampledFrom([]int{1, 1, 2, 4}).Draw(t, "conc")
	c.WriteTo = rapid.IntRange(0, 2).Draw(t, "writeto?") == 0
	c.Grow = c.WriteTo && rapid.Bool().Draw(t, "grow?")
	if !c.WriteTo {
		c.Sizes = rapid.SliceOfN(rapid.SampledFrom([]int{1, 7, 4095, 65536}), 1, 3).Draw(t, "sizes")
	}
	switch k := rapid.IntRange(0, 11).Draw(t, "kind"); {
	case k <= 1:
		c.Kind = "random"
		c.Bytes = rapid.SliceOfN(rapid.Byte(), 0, 200).Draw(t, "bytes")
		switch rapid.IntRange(0, 4).Draw(t, "prefix") {
		case 0:
			c.Bytes = append([]byte{0x04, 0x22, 0x4D, 0x18}, c.Bytes...)
		case 1:
			c.Bytes = append([]byte{0x02, 0x21, 0x4C, 0x18}, c.Bytes...)
		case 2:
			c.Bytes = append([]byte{byte(0x50 + rapid.IntRange(0, 15).Draw(t, "nib")), 0x2A, 0x4D, 0x18}, c.Bytes...)
		case 3:
			// a first word near the reserved values
			m := rapid.SampledFrom([]uint32{ref.MagicFrame, ref.MagicLegacy, ref.MagicSkipFirst, ref.MagicSkipLast}).Draw(t, "near")
			w := uint32(int64(m) + int64(rapid.IntRange(-300, 300).Draw(t, "delta")))
			if rapid.Bool().Draw(t, "flipbits") {
				w = m ^ 1<<uint(rapid.IntRange(0, 31).Draw(t, "b1")) ^ 1<<uint(rapid.IntRange(0, 31).Draw(t, "b2"))
			}
			c.Bytes = append([]byte{byte(w), byte(w >> 8), byte(w >> 16), byte(w >> 24)}, c.Bytes...)
		}
	case k <= 5:
		c.Kind = "mutated"
		b := drawFrameSrc(t, "base")
		c.Base = &b
		z, _, f := b.build()
		if f != nil || len(z) == 0 {
			c.Kind, c.Bytes = "random", []byte{1, 2, 3}
			break
		}
		fr := ref.ParseFrame(z, ref.Lenient)
		nm := rapid.IntRange(1, 3).Draw(t, "nmut")
		for i := 0; i < nm; i++ {
			m := drawMutation(t, z, fr, 0)
			if m.Op == "splice" {
				m.Op, m.Val = "xor", 0x40
			}
			c.Muts = append(c.Muts, m)
		}
	case k <= 8:
		c.Kind = "hostile"
		fp := gen.FrameParams{Dependent: 1, MaxBlocks: 5, MaxBlockLen: 3000, Skips: true}
		if rapid.IntRange(0, 3).Draw(t, "bigblocks") == 0 {
			fp = gen.FrameParams{Dependent: 1, MaxBlocks: 4, MaxBlockLen: 300 << 10, BigBlocks: true}
		}
		spec := gen.DrawFrameSpec(t, fp)
		if rapid.IntRange(0, 2).Draw(t, "plainvalid") == 0 {
			// no hostile field at all: a valid frame (possibly with large dependent blocks) must simply be read
			c.Spec = &spec
			break
		}
		// hostile field values
		for i := 0; i < rapid.IntRange(1, 3).Draw(t, "nhostile"); i++ {
			switch rapid.IntRange(0, 6).Draw(t, "hostile") {
			case 0, 1:
				if len(spec.Blocks) > 0 {
					bi := rapid.IntRange(0, len(spec.Blocks)-1).Draw(t, "blk")
					spec.Blocks[bi].SizeWord = u32(rapid.SampledFrom(hostileSizeWords).Draw(t, "sizeword"))
				} else {
					spec.Blocks = append(spec.Blocks, gen.BlockSpec{Raw: true, RawN: 3, SizeWord: u32(0x7FFFFFFF)})
				}
			case 2:
				spec.HasSize = true
				spec.SizeField = u64(rapid.SampledFrom([]uint64{1<<64 - 1, 1 << 63, 1 << 40, 1 << 30, 768 << 20, 1<<31 - 1, 1<<32 - 1, 1 << 32}).Draw(t, "sizefield"))
			case 3:
				spec.Skips = append(spec.Skips, ref.EncSkip{Nibble: rapid.IntRange(0, 15).Draw(t, "nib"), Data: []byte{1, 2, 3}, LenWord: u32(rapid.SampledFrom([]uint32{1<<32 - 1, 1 << 31, 1 << 30, 4}).Draw(t, "skiplen"))})
			case 4:
				spec.NoEndMark = true
			case 5:
				spec.BDXor = byte(rapid.SampledFrom([]int{0x10, 0x20, 0x40, 0x70, 0x80, 0x0F}).Draw(t, "bdxor"))
				spec.HCXor = 0 // the builder recomputes the header checksum, so the hostile code is reached
			default:
				spec.Trail = rapid.SliceOfN(rapid.Byte(), 1, 40).Draw(t, "trail")
			}
		}
		c.Spec = &spec
	case k <= 9:
		c.Kind = "skippable"
		spec := gen.DrawFrameSpec(t, gen.FrameParams{Dependent: 1, MaxBlocks: 3, MaxBlockLen: 2000})
		ns := rapid.IntRange(1, 3).Draw(t, "nskips")
		for i := 0; i < ns; i++ {
			sk := ref.EncSkip{Nibble: rapid.IntRange(0, 15).Draw(t, "nib"), Data: make([]byte, rapid.SampledFrom([]int{0, 1, 3, 4, 100, 70000}).Draw(t, "skipn"))}
			gen.Fill(sk.Data, uint64(i))
			spec.Skips = append(spec.Skips, sk)
		}
		if rapid.IntRange(0, 4).Draw(t, "hostilelen") == 0 {
			spec.Skips[len(spec.Skips)-1].LenWord = u32(rapid.SampledFrom([]uint32{1<<32 - 1, 1 << 31, 1 << 20}).Draw(t, "skiplen"))
		}
		if rapid.Bool().Draw(t, "trail") {
			spec.Trail = []byte{9, 9, 9}
		}
		c.Spec = &spec
	default:
		c.Kind = "repeat"
		legacyMagic := []byte{0x02, 0x21, 0x4C, 0x18}
		frameHdr := []byte{0x04, 0x22, 0x4D, 0x18, 0x60, 0x40, 0x82}
		switch rapid.IntRange(0, 4).Draw(t, "unit") {
		case 0:
			c.Prefix, c.Unit = nil, legacyMagic
			c.Count = rapid.SampledFrom([]int{100, 10000, 100000}).Draw(t, "count")
		case 1:
			c.Prefix, c.Unit = frameHdr, []byte{0, 0, 0, 0x80} // empty stored blocks
			c.Count = rapid.SampledFrom([]int{100, 10000, 100000}).Draw(t, "count")
			if concOf(c.Conc) > 1 && c.Count > 10000 {
				c.Count = 10000
			}
			c.Suffix = []byte{0, 0, 0, 0}
		case 2:
			c.Unit = []byte{0x50, 0x2A, 0x4D, 0x18, 0, 0, 0, 0} // empty skippable frames
			c.Count = rapid.SampledFrom([]int{100, 10000, 300000}).Draw(t, "count")
			c.Suffix = append(append([]byte{}, frameHdr...), 0, 0, 0, 0)
		case 3:
			c.Prefix, c.Unit = frameHdr, []byte{0, 0, 0, 0} // end marks
			c.Count = rapid.SampledFrom([]int{100, 100000}).Draw(t, "count")
		default:
			c.Prefix, c.Unit = legacyMagic, []byte{1, 0, 0, 0, 0} // legacy blocks decoding to nothing
			c.Count = rapid.SampledFrom([]int{100, 10000}).Draw(t, "count")
		}
	}
	// a slow consumer (the Reader runs ahead as far as it ever will) with the reachable heap measured: not on the long repetitions
	if !c.Grow && c.Count <= 10000 && rapid.IntRange(0, 7).Draw(t, "slow?") == 0 {
		c.Slow = true
	}
	return c
}

func init() { register("C07", "C07/reader", runC07) }

const c07Rule = "byte strings fed to the Reader (sequential and concurrent, Read size sequences or WriteTo), each run inside a synctest bubble: random bytes behind each magic and behind first words " +
	"near the reserved values; valid frames (Writer, independent encoder) with 1..3 structure-map mutations; encoder-built frames with hostile fields (block size words up to 2^31-1 with and without " +
	"the raw bit, content size 2^64-1, skippable lengths up to 2^32-1 over short inputs, undefined block-size codes with a correct header checksum, missing end mark); valid frames behind 1..3 " +
	"skippable frames of every nibble; lazily produced repetitions (up to 3*10^7 legacy magics, 10^5 empty blocks, 3*10^5 empty skippable frames, end marks). Oracle: the call returns data and/or " +
	"an error: no panic, no process death (stack exhaustion is caught through the journaled case), bubble verdict ok (never blocks forever; no goroutine left blocked after the end of the stream or an " +
	"error), bytes allocated while decoding stay under 96 MiB + 20 MiB x concurrency + 6 x input (hostile fields are >= 2^30); a non-magic first word gives the invalid-frame error; the 16 skippable " +
	"magics skip exactly the announced bytes (content and source position checked); with a consumer that pauses (virtual time) before every call - so that the Reader's goroutines run ahead as far " +
	"as they ever will - the heap still reachable (measured after a forced collection at steps 1, 2, 4, ...) stays under 64 MiB + 24 MiB x concurrency, whatever the number of blocks (pinned: 700 one-byte " +
	"blocks in a frame that declares 4 MiB blocks, concurrency 2/4/16, Read and WriteTo; 1 case in 8 of the generated ones). Thorough: all 2^32 first words through ValidFrameHeader. Non-trivial = the input got past the magic or is a " +
	"first-word / random case; distinct by hash(kind, input prefix, length, reader mode)."

func TestC07(t *testing.T) {
	bubbleT = t
	rec := stat.For("C07")
	rec.SetRule(c07Rule)
	rec.Require("nontrivial/past-the-magic", "kind/hostile", "kind/mutated", "kind/random", "kind/repeat", "kind/skippable", "skippable/skipped-exactly", "skippable/hostile-length", "firstword/non-magic", "mode/conc", "mode/seq")
	checkProp(t, "C07", "C07/reader", pick(25000, 400000), drawC07, runC07)
}

// TestC07Deep: the crash-class inputs (deep repetition of one field). The case is journaled
// before it runs, so a process death (fatal error: stack overflow) still yields a replay file.
func TestC07Deep(t *testing.T) {
	bubbleT = t
	rec := stat.For("C07")
	rec.SetRule(c07Rule)
	if shard != 0 {
		return
	}
	legacyMagic := []byte{0x02, 0x21, 0x4C, 0x18}
	frameHdr := []byte{0x04, 0x22, 0x4D, 0x18, 0x60, 0x40, 0x82}
	cases := []c07Case{
		{Kind: "repeat", Unit: legacyMagic, Count: 30000000, Conc: 1, Sizes: []int{4096}},
		{Kind: "repeat", Unit: legacyMagic, Count: 3000000, Conc: 4, WriteTo: true},
		// (a goroutine stack may grow to 1 GB: a recursion of ~100-byte frames needs about 10^7 repetitions to exhaust it)
		{Kind: "repeat", Prefix: frameHdr, Unit: []byte{0, 0, 0, 0x80}, Count: 12000000, Suffix: []byte{0, 0, 0, 0}, Conc: 1, Sizes: []int{65536}},
		{Kind: "repeat", Unit: []byte{0x5F, 0x2A, 0x4D, 0x18, 0, 0, 0, 0}, Count: 25000000, Suffix: append(append([]byte{}, frameHdr...), 0, 0, 0, 0), Conc: 1, Sizes: []int{4096}},
		{Kind: "repeat", Unit: []byte{0x50, 0x2A, 0x4D, 0x18, 1, 0, 0, 0, 0xAA}, Count: 12000000, Suffix: append(append([]byte{}, frameHdr...), 0, 0, 0, 0), Conc: 1, WriteTo: true},
		{Kind: "repeat", Prefix: []byte{0x02, 0x21, 0x4C, 0x18}, Unit: []byte{1, 0, 0, 0, 0}, Count: 12000000, Conc: 1, Sizes: []int{4096}},
		{Kind: "repeat", Prefix: frameHdr, Unit: []byte{0, 0, 0, 0x80}, Count: 200000, Suffix: []byte{0, 0, 0, 0}, Conc: 4, Sizes: []int{65536}},
	}
	// many tiny blocks in a frame that declares 4 MiB blocks, read by a slow consumer: what is held at once must not grow with their number
	frameHdr4M := []byte{0x04, 0x22, 0x4D, 0x18, 0x60, 0x70, 0x73}
	for _, unit := range [][]byte{{1, 0, 0, 0x80, 0x78}, {2, 0, 0, 0, 0x10, 0x78}} {
		for _, conc := range []int{2, 4, 16} {
			for _, wt := range []bool{false, true} {
				cases = append(cases, c07Case{Kind: "repeat", Prefix: frameHdr4M, Unit: unit, Count: 700, Suffix: []byte{0, 0, 0, 0}, Conc: conc, WriteTo: wt, Sizes: []int{1}, Slow: true})
			}
		}
	}
	// legacy blocks just above 8 MiB (up to the compression bound the Reader accepts), stored raw or "compressed", payload present
	le := func(v uint32) []byte { return []byte{byte(v), byte(v >> 8), byte(v >> 16), byte(v >> 24)} }
	for _, size := range []uint32{8<<20 + 1, 8<<20 + 32912, 8<<20 + 32913, 8 << 20} {
		for _, rawBit := range []uint32{0x80000000, 0} {
			for _, wt := range []bool{false, true} {
				cases = append(cases, c07Case{Kind: "repeat", Prefix: append(append([]byte{}, legacyMagic...), le(size|rawBit)...), Unit: []byte{0x41}, Count: int(size), Suffix: le(5), Conc: 1, WriteTo: wt, Sizes: []int{65536}})
			}
		}
	}
	// a skippable frame that announces - and carries - almost 4 GiB, followed by an empty frame
	big := make([]byte, 1<<20)
	for _, n := range []uint32{0xFFFFFFFF, 0xFFFF0001, 0xFFFF0000} {
		cases = append(cases, c07Case{Kind: "skipbig", Prefix: append([]byte{0x53, 0x2A, 0x4D, 0x18}, le(n)...), Unit: big, Count: int(n >> 20), Suffix: append(append(make([]byte, n&(1<<20-1)), frameHdr...), 0, 0, 0, 0), Conc: 1, Sizes: []int{65536}})
	}
	// "any concurrency setting": absurd values (the queues between the goroutines are as long as the setting)
	{
		var sink inst.Sink
		w := lz4.NewWriter(&sink)
		_ = w.Apply(lz4.BlockSizeOption(lz4.Block64Kb))
		_, _ = w.Write(opData(200000, 7))
		_ = w.Close()
		for _, conc := range []int{math.MaxInt, math.MaxInt / 2, math.MaxInt >> 13, 1<<16 + 1} {
			for _, wt := range []bool{false, true} {
				cases = append(cases, c07Case{Kind: "random", Bytes: sink.Buf, Conc: conc, WriteTo: wt, Sizes: []int{4096}})
			}
		}
	}
	for _, n := range []int{1, 2, 3} {
		for _, wt := range []bool{false, true} {
			cases = append(cases, c07Case{Kind: "legacygrow", Count: n, Conc: 1, WriteTo: wt, Sizes: []int{65536}})
		}
	}
	// a tiny frame that announces a content size between the block maximum and 2^32, decoded into a destination that can be told to grow
	for _, announced := range []uint64{5 << 20, 256 << 20, 768 << 20, 1 << 30, 1<<31 - 1, 1<<32 - 1} {
		var sink inst.Sink
		w := lz4.NewWriter(&sink)
		_ = w.Apply(lz4.SizeOption(announced), lz4.BlockSizeOption(lz4.Block64Kb))
		_, _ = w.Write([]byte("hello world"))
		_ = w.Close()
		for _, conc := range []int{1, 4} {
			cases = append(cases, c07Case{Kind: "random", Bytes: sink.Buf, Conc: conc, WriteTo: true, Grow: true}, c07Case{Kind: "random", Bytes: sink.Buf, Conc: conc, Sizes: []int{4096}})
		}
	}
	for _, c := range cases {
		pinned(t, "C07", "C07/reader", c, runC07)
		rec.Class("deep-repetition")
	}
}

// TestC07AllFirstWords (thorough only): the complete 2^32 first-word enumeration through
// ValidFrameHeader: every non-magic word gives (false, nil).
func TestC07AllFirstWords(t *testing.T) {
	rec := stat.For("C07")
	rec.SetRule(c07Rule)
	if !thorough() {
		return
	}
	var bad atomic.Uint64
	var found atomic.Bool
	var wg sync.WaitGroup
	workers := runtime.GOMAXPROCS(0)
	lo, hi := uint64(0), uint64(1)<<32
	if nshards > 1 {
		span := (uint64(1) << 32) / uint64(nshards)
		lo, hi = uint64(shard)*span, uint64(shard+1)*span
		if shard == nshards-1 {
			hi = 1 << 32
		}
	}
	chunk := (hi - lo + uint64(workers) - 1) / uint64(workers)
	for w := 0; w < workers; w++ {
		wg.Add(1)
		go func(a, b uint64) {
			defer wg.Done()
			buf := []byte{0, 0, 0, 0, 0x60, 0x40, 0x82}
			for x := a; x < b && !found.Load(); x++ {
				v := uint32(x)
				if isMagic(v) {
					continue
				}
				buf[0], buf[1], buf[2], buf[3] = byte(v), byte(v>>8), byte(v>>16), byte(v>>24)
				ok, err := lz4.ValidFrameHeader(buf)
				if ok || err != nil {
					bad.Store(x)
					found.Store(true)
					return
				}
			}
		}(lo+uint64(w)*chunk, minU64(hi, lo+uint64(w+1)*chunk))
	}
	wg.Wait()
	if found.Load() {
		c := c19Word{Word: uint32(bad.Load())}
		judge(t, "C07", "C07/firstword", c, stat.Failf("C07/non-magic-first-word-accepted-by-ValidFrameHeader", "word %08x", c.Word))
	}
	rec.EvalN(int64(hi - lo))
	rec.NonTrivialEnumerated(int64(hi - lo - 18))
	rec.ClassN("firstword/all-2^32-enumerated", int64(hi-lo))
	rec.SetExtra("first_word_enumeration_exhaustive", true)
}

func minU64(a, b uint64) uint64 {
	if a < b {
		return a
	}
	return b
}

func init() {
	register("C07", "C07/firstword", func(c c19Word, rec *stat.Rec) *stat.Failure {
		f := runC19Word(c, rec)
		if f != nil {
			f.Sig = "C07/" + f.Sig[4:]
		}
		return f
	})
}
