package props

import (
	"encoding/json"
	"flag"
	"fmt"
	"hash/fnv"
	"os"
	"runtime/debug"
	"strconv"
	"strings"
	"testing"

	"pgregory.net/rapid"

	"verifharness/stat"
)

var (
	tier    = envStr("VERIF_TIER", "quick")
	seed    = envInt("VERIF_SEED", 1)
	shard   = envInt("VERIF_SHARD", 0)
	nshards = envInt("VERIF_NSHARD", 1)
)

func envStr(k, d string) string {
	if v := os.Getenv(k); v != "" {
		return v
	}
	return d
}

func envInt(k string, d int) int {
	if v, err := strconv.Atoi(os.Getenv(k)); err == nil {
		return v
	}
	return d
}

func thorough() bool { return tier == "thorough" }

// pick returns q in the quick tier and th in the thorough tier.
func pick(q, th int) int {
	if thorough() {
		return th
	}
	return q
}

func TestMain(m *testing.M) {
	if os.Getenv("VERIF_TWIN_SERVER") == "1" {
		twinServe()
		os.Exit(0)
	}
	installHooks()
	code := m.Run()
	twinStop()
	stat.Dump()
	os.Exit(code)
}

// rapidSeed derives the PRNG value of one rapid.Check call from VERIF_SEED, the shard and
// the check name. 0 means "random" to rapid, so it is remapped.
func rapidSeed(name string) uint64 {
	h := fnv.New64a()
	fmt.Fprintf(h, "%d/%d/%s", seed, shard, name)
	s := h.Sum64() >> 1
	if s == 0 {
		s = 1
	}
	return s
}

type replayFn func(raw json.RawMessage) *stat.Failure

var replayers = map[string]replayFn{}

// safely runs the oracle and turns an escaping panic into a failure.
func safely[C any](run func(C, *stat.Rec) *stat.Failure, c C, rec *stat.Rec) (f *stat.Failure) {
	defer func() {
		if r := recover(); r != nil {
			f = panicFailure(rec.ID, r, debug.Stack())
		}
	}()
	return run(c, rec)
}

// panicFailure classifies a recovered panic: if a frame of the library is on the panicking
// stack it is the library that panicked (a violation of "never panics"); otherwise the
// machinery is at fault (reported as a harness problem, never as a violation).
func panicFailure(id string, r interface{}, stack []byte) *stat.Failure {
	st := string(stack)
	if i := strings.Index(st, "panic("); i >= 0 {
		st = st[i:]
	}
	if strings.Contains(st, "github.com/pierrec/lz4/v4") {
		return stat.Failf(id+"/panic-escapes-from-the-library", "panic: %v\n%s", r, stack)
	}
	return stat.Failf("harness-panic", "panic: %v\n%s", r, stack)
}

// register makes a check replayable: name is "<property>/<check>".
func register[C any](id, name string, run func(C, *stat.Rec) *stat.Failure) {
	replayers[name] = func(raw json.RawMessage) *stat.Failure {
		var c C
		if err := json.Unmarshal(raw, &c); err != nil {
			return stat.Failf("bad-replay-file", "%v", err)
		}
		return safely(run, c, stat.For(id))
	}
}

// judge handles one oracle verdict: known findings are counted and excluded, anything
// else is written out as a replay file and fails the test.
func judge(t interface {
	Fatalf(string, ...interface{})
}, id, name string, c interface{}, f *stat.Failure) {
	if f == nil {
		return
	}
	rec := stat.For(id)
	if strings.HasPrefix(f.Sig, "harness") {
		// the machinery, not the library, is at fault: fail without recording a violation (driver: exit 2)
		t.Fatalf("HARNESS PROBLEM in %s (%s): %s", id, name, f.Msg)
		return
	}
	if rec.IsKnown(f.Sig) {
		rec.Class("excluded_known")
		return
	}
	path := rec.Violation(f, name, c)
	t.Fatalf("VIOLATION %s sig=%s replay=%s\n%s", id, f.Sig, path, f.Msg)
}

// checkProp runs a generated campaign of n cases for one check of a property.
func checkProp[C any](t *testing.T, id, name string, n int, draw func(*rapid.T) C, run func(C, *stat.Rec) *stat.Failure) {
	t.Helper()
	rec := stat.For(id)
	n = (n + nshards - 1) / nshards
	setRapid(n, name)
	rapid.Check(t, func(rt *rapid.T) {
		c := draw(rt)
		journal(id, name, c)
		judge(rt, id, name, c, safely(run, c, rec))
	})
}

// journal records the case that is about to run, so that the driver can still produce a
// replay file when the process dies (race detector abort, fatal runtime error).
func journal(id, name string, c interface{}) {
	path := os.Getenv("VERIF_JOURNAL")
	if path == "" {
		return
	}
	b, err := json.Marshal(map[string]interface{}{"property": id, "check": name, "case": c, "journal": true, "variant": os.Getenv("VERIF_VARIANT")})
	if err == nil {
		_ = os.WriteFile(path, b, 0o644)
	}
}

// setRapid configures the next rapid.Check call: number of cases and PRNG value.
func setRapid(n int, name string) {
	_ = flag.Set("rapid.checks", strconv.Itoa(n))
	_ = flag.Set("rapid.seed", strconv.FormatUint(rapidSeed(name), 10))
	_ = flag.Set("rapid.shrinktime", envStr("VERIF_SHRINKTIME", "20s"))
	_ = flag.Set("rapid.nofailfile", "true")
}

// pinned runs one fixed case through the same oracle (regression tier, bypasses rapid).
func pinned[C any](t *testing.T, id, name string, c C, run func(C, *stat.Rec) *stat.Failure) {
	t.Helper()
	journal(id, name, c)
	judge(t, id, name, c, safely(run, c, stat.For(id)))
}

// TestReplay re-runs the case stored in $VERIF_REPLAY through its oracle, without rapid.
func TestReplay(t *testing.T) {
	path := os.Getenv("VERIF_REPLAY")
	if path == "" {
		t.Skip("VERIF_REPLAY not set")
	}
	bubbleT = t
	b, err := os.ReadFile(path)
	if err != nil {
		t.Fatalf("cannot read replay file: %v", err)
	}
	var rf struct {
		Property string          `json:"property"`
		Check    string          `json:"check"`
		Case     json.RawMessage `json:"case"`
	}
	if err := json.Unmarshal(b, &rf); err != nil {
		t.Fatalf("bad replay file: %v", err)
	}
	fn := replayers[rf.Check]
	if fn == nil {
		t.Fatalf("no replayer for check %q", rf.Check)
	}
	if f := fn(rf.Case); f != nil {
		rec := stat.For(rf.Property)
		if rec.IsKnown(f.Sig) {
			t.Logf("known finding: %s", f.Sig)
			return
		}
		fmt.Printf("REPLAY-VIOLATION property=%s sig=%s\n%s\n", rf.Property, f.Sig, f.Msg)
		rec.Violation(f, rf.Check, json.RawMessage(rf.Case))
		t.Fatalf("replayed case still violates %s: %s", rf.Property, f.Sig)
	}
	fmt.Printf("REPLAY-OK property=%s check=%s\n", rf.Property, rf.Check)
}
