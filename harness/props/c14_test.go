package props

import (
	"bytes"
	"fmt"
	"sync"
	"testing"

	lz4 "github.com/pierrec/lz4/v4"
	"pgregory.net/rapid"

	"verifharness/gen"
	"verifharness/inst"
	"verifharness/ref"
	"verifharness/stat"
)

// C14: compression is deterministic: output depends only on input and settings.

// ---------------------------------------------------------------- blocks

type c14BlockCase struct {
	Target  c01Step    `json:"target"`
	DstLen  int        `json:"dstlen"` // 0 = bound
	History []gen.Data `json:"history"`
	HistDst []int      `json:"histdst,omitempty"` // destination length of each history call (0 = bound): short ones fail part-way
	Hammer  bool       `json:"hammer"`
	// HistRel[i] != "": history source i is derived from the *target* source (c01Step.relSrc: drop | prepend | head | tail | append | same, with
	// HistRelN[i]) - the used compressor has seen the target's byte groups before, at other positions
	HistRel  []string `json:"histrel,omitempty"`
	HistRelN []int    `json:"histreln,omitempty"`
}

func runC14Block(c c14BlockCase, rec *stat.Rec) *stat.Failure {
	src := c.Target.Data.Build()
	dstLen := c.DstLen
	if dstLen <= 0 {
		dstLen = lz4.CompressBlockBound(len(src))
	}
	hc := c.Target.Comp[:2] == "hc"
	objKind, pkgKind := "fast-obj", "fast-pkg"
	if hc {
		objKind, pkgKind = "hc-obj", "hc-pkg"
	}
	run := func(bc *blockComps, kind string, fill byte, spare int) ([]byte, int, error) {
		back := make([]byte, dstLen+spare)
		for i := range back {
			back[i] = fill
		}
		n, err := bc.compress(kind, c.Target.Depth, src, back[:dstLen])
		if n < 0 || n > dstLen {
			return nil, n, err
		}
		return back[:n], n, err
	}
	rec.Eval()
	var fresh blockComps
	base, n0, err0 := run(&fresh, objKind, 0x00, 0)
	same := func(name string, out []byte, n int, err error) *stat.Failure {
		if n != n0 || (err == nil) != (err0 == nil) || !bytes.Equal(out, base) {
			return stat.Failf("C14/block/"+c.Target.Comp[:2]+"/"+name+"-differs-from-fresh-compressor", "%s depth %d len(src)=%d len(dst)=%d: fresh: n=%d err=%v; %s: n=%d err=%v, first difference at %d",
				c.Target.Comp, c.Target.Depth, len(src), dstLen, n0, err0, name, n, err, firstDiff(out, base))
		}
		return nil
	}
	// (b) a compressor that has processed unrelated inputs (every table slot dirty), different prior dst contents, spare capacity
	var used blockComps
	for i, h := range c.History {
		hs := h.Build()
		if i < len(c.HistRel) && c.HistRel[i] != "" {
			hs = c01Step{Data: h, Rel: c.HistRel[i], RelN: c.HistRelN[i]}.relSrc(src)
			rec.Class("block/history-source-derived-from-the-target")
		}
		hd := make([]byte, lz4.CompressBlockBound(len(hs)))
		if i < len(c.HistDst) && c.HistDst[i] > 0 && c.HistDst[i] < len(hd) {
			hd = hd[:c.HistDst[i]]
			rec.Class("block/history-call-into-short-destination")
		}
		_, _ = used.compress(objKind, 4, hs, hd)
		// the pooled objects get the same kind of history
		_, _ = used.compress(pkgKind, 4, hs, hd)
	}
	out, n, err := run(&used, objKind, 0xFF, 64)
	if f := same("reused-compressor", out, n, err); f != nil {
		return f
	}
	// and again on the same object: a second run over the same input
	out, n, err = run(&used, objKind, 0x55, 0)
	if f := same("second-run-on-the-same-compressor", out, n, err); f != nil {
		return f
	}
	// (c) the pooled package function, optionally while other goroutines hammer the same pools
	stop := make(chan struct{})
	var wg sync.WaitGroup
	if c.Hammer {
		for g := 0; g < 8; g++ {
			wg.Add(1)
			go func(g int) {
				defer wg.Done()
				buf := make([]byte, 30000+g*997)
				gen.Fill(buf, uint64(g))
				for i := range buf {
					buf[i] = 'a' + buf[i]%byte(3+g)
				}
				dst := make([]byte, lz4.CompressBlockBound(len(buf)))
				for {
					select {
					case <-stop:
						return
					default:
					}
					if g%2 == 0 {
						_, _ = lz4.CompressBlock(buf, dst, nil)
					} else {
						_, _ = lz4.CompressBlockHC(buf, dst, 8, nil, nil)
					}
				}
			}(g)
		}
	}
	var pooled blockComps
	for k := 0; k < 3; k++ {
		out, n, err = run(&pooled, pkgKind, byte(k*77), k)
		if f := same("pooled-function", out, n, err); f != nil {
			close(stop)
			wg.Wait()
			return f
		}
	}
	close(stop)
	wg.Wait()
	matches := 0
	if n0 > 0 {
		matches = classifyBlock(rec, "block/", ref.DecodeBlock(base, len(src), nil).Seqs)
	}
	rec.Class("block/"+depthClass(c.Target.Comp, c.Target.Depth), "block/"+srcLenClass(len(src)))
	if c.Hammer {
		rec.Class("block/pools-hammered")
	}
	big := false
	for _, h := range c.History {
		if h.Len() >= 1<<20 {
			big = true
		}
	}
	if big {
		rec.Class("block/history>=1MiB")
	}
	if dstLen < lz4.CompressBlockBound(len(src)) {
		rec.Class("block/dst-below-bound")
	}
	if matches > 0 && len(c.History) > 0 {
		rec.NonTrivial(stat.FP("b", src, c.Target.Comp, c.Target.Depth, dstLen, len(c.History)))
		rec.Class("block/nontrivial")
	}
	rec.Sample(map[string]interface{}{"check": "block", "comp": c.Target.Comp, "depth": c.Target.Depth, "len(src)": len(src), "len(dst)": dstLen, "history": len(c.History), "hammer": c.Hammer, "n": n0})
	return nil
}

func drawC14Block(t *rapid.T) c14BlockCase {
	var c c14BlockCase
	c.Target = drawBlockStep(t, pick(128<<10, 2<<20))
	if rapid.IntRange(0, 3).Draw(t, "shortdst") == 0 {
		c.DstLen = rapid.IntRange(1, lz4.CompressBlockBound(c.Target.Data.Len())).Draw(t, "dstlen")
	}
	k := rapid.IntRange(1, 3).Draw(t, "nhist")
	for i := 0; i < k; i++ {
		maxLen := pick(300<<10, 4<<20)
		h := gen.DrawData(t, maxLen, "hist")
		c.History = append(c.History, h)
		hd := 0
		if rapid.IntRange(0, 2).Draw(t, "histshort?") == 0 {
			hd = rapid.IntRange(1, maxI(1, lz4.CompressBlockBound(h.Len())-1)).Draw(t, "histdst")
		}
		c.HistDst = append(c.HistDst, hd)
	}
	c.Hammer = rapid.IntRange(0, 3).Draw(t, "hammer") == 0
	if rapid.IntRange(0, 2).Draw(t, "related?") == 0 {
		if rapid.Bool().Draw(t, "smalltarget") {
			c.Target.Data = gen.DrawData(t, rapid.SampledFrom([]int{20, 40, 300, 5000}).Draw(t, "tmax"), "tsrc")
			c.DstLen = 0
		}
		for i := range c.History {
			c.History[i] = gen.DrawData(t, rapid.SampledFrom([]int{8, 40, 3000}).Draw(t, "hown"), "hsrc")
			c.HistDst[i] = 0
			c.HistRel = append(c.HistRel, rapid.SampledFrom([]string{"drop", "drop", "prepend", "head", "tail", "append"}).Draw(t, "hrel"))
			c.HistRelN = append(c.HistRelN, rapid.SampledFrom([]int{1, 1, 2, 3, 5, 8, 15, 16, 17, 100, 65536}).Draw(t, "hreln"))
		}
	}
	return c
}

// ---------------------------------------------------------------- frames

type c14Variant struct {
	Conc   int   `json:"conc"`
	Chunks []int `json:"chunks,omitempty"` // Write partition (no Flush)
	Sched  []int `json:"sched,omitempty"`
}

type c14FrameCase struct {
	Opts     wopts        `json:"opts"`
	Data     gen.Data     `json:"data"`
	Variants []c14Variant `json:"variants"`
}

func writeVariant(o wopts, data []byte, v c14Variant) ([]byte, error) {
	o.Conc = v.Conc
	var sink inst.Sink
	sink.Hook = lz4YieldFromSink
	w := lz4.NewWriter(&sink)
	if err := w.Apply(o.options(len(data), nil)...); err != nil {
		return nil, err
	}
	d := delivery{Mode: "write", Chunks: v.Chunks}
	if _, err := deliver(w, data, d); err != nil {
		return nil, err
	}
	if err := w.Close(); err != nil {
		return nil, err
	}
	return sink.Buf, nil
}

func runC14Frame(c c14FrameCase, rec *stat.Rec) *stat.Failure {
	if !inst.BubbleSupported {
		return stat.Failf("harness-problem", "the frame half of C14 must be built with Go >= 1.25 (testing/synctest)")
	}
	data := c.Data.Build()
	rec.Eval()
	base, err := writeVariant(c.Opts, data, c14Variant{Conc: 1})
	if err != nil {
		return stat.Failf("C14/frame/sequential-writer-fails", "%s: %v", c.Opts, err)
	}
	var fail *stat.Failure
	for vi, v := range c.Variants {
		var out []byte
		var werr error
		restore := setSchedule(v.Sched)
		poisonOn.Store(true)
		verdict, detail := inst.RunBubble(bubbleT, func() { out, werr = writeVariant(c.Opts, data, v) })
		poisonOn.Store(false)
		restore()
		if verdict != "ok" {
			return stat.Failf("C14/frame/writer-"+verdict, "variant %d %+v: %s", vi, v, detail)
		}
		if werr != nil {
			return stat.Failf("C14/frame/writer-fails", "variant %d %+v: %v", vi, v, werr)
		}
		if !bytes.Equal(out, base) {
			kind := "concurrency"
			if concOf(v.Conc) == 1 {
				kind = "write-partition"
			}
			fail = stat.Failf("C14/frame/output-depends-on-"+kind, "%s, %d bytes: variant %d %+v gives %d bytes, the sequential single-Write output has %d, first difference at %d", c.Opts, len(data), vi, v, len(out), len(base), firstDiff(out, base))
			break
		}
		rec.Class(fmt.Sprintf("frame/variant-conc=%d", v.Conc))
		if len(v.Chunks) > 0 {
			rec.Class("frame/variant-partitioned")
		}
	}
	if fail != nil {
		return fail
	}
	fr := ref.ParseFrame(base, ref.Walk)
	compressed := 0
	for _, b := range fr.Blocks {
		if !b.Raw {
			compressed++
		}
	}
	rec.Class(c.Opts.classes("frame/")...)
	if compressed > 0 && len(c.Variants) > 0 {
		rec.NonTrivial(stat.FP("f", c.Opts.String(), data, fmt.Sprint(c.Variants)))
		rec.Class("frame/nontrivial")
	}
	rec.Sample(map[string]interface{}{"check": "frame", "opts": c.Opts.String(), "len": len(data), "blocks": len(fr.Blocks), "variants": c.Variants})
	return nil
}

func drawC14Frame(t *rapid.T) c14FrameCase {
	var c c14FrameCase
	c.Opts = drawWopts(t, false, 1)
	c.Opts.Conc = 1
	bs := c.Opts.blockSize()
	n := sizeAround(t, 65536, pick(500<<10, 3<<20))
	if c.Opts.Level != 0 && n > 300<<10 {
		n = 300 << 10
	}
	c.Data = drawFrameData(t, n)
	k := rapid.IntRange(1, 3).Draw(t, "nvariants")
	for i := 0; i < k; i++ {
		var v c14Variant
		v.Conc = rapid.SampledFrom([]int{1, 2, 4, 16}).Draw(t, "conc")
		if rapid.Bool().Draw(t, "partition?") {
			v.Chunks = drawDelivery(t, n, bs, false, false).Chunks
		}
		if concOf(v.Conc) > 1 {
			v.Sched = rapid.SliceOfN(rapid.SampledFrom([]int{0, 0, 1, 2, 5, 50, 500}), 1, 23).Draw(t, "sched")
		}
		c.Variants = append(c.Variants, v)
	}
	return c
}

func init() {
	register("C14", "C14/block", runC14Block)
	register("C14", "C14/frame", runC14Frame)
}

const c14Rule = "blocks: the same (source, depth, destination length) is compressed by a fresh compressor object, by an object that first processed 1..3 other inputs (unrelated, up to 4 MiB, so every " +
	"table slot is dirty; or, one case in three, derived from the target itself - its first k bytes dropped, k bytes in front, its head, its tail, extended - so that the object has seen the target's byte groups at other positions), twice in a row, and through the pooled package function (three times, optionally while 8 goroutines hammer the same pools), into destinations with different prior " +
	"contents and spare capacity: all outputs (n, error-or-not, bytes) must be identical. Frames: the same stream and options written sequentially with one Write (base) and with concurrency " +
	"{1,2,4,16} x Write partitions (no Flush) x drawn virtual-time schedules inside a synctest bubble, pooled buffers overwritten with a per-release pattern: byte-identical. The frame campaign is " +
	"repeated with GOMAXPROCS 1. Non-trivial = the input compresses with >= 1 match and the runs differ in history / schedule / partition; distinct by hash(input, options, variants). " +
	"Long-lived objects (pinned regimes): targets compressed exactly 255/256/257/65535/65536/65537 calls after nearly identical inputs (small inputs in between, long enough to use the tables or mixed with shorter ones); " +
	"after 2^31, 2^32, 2^32+2^31, 2^33 bytes (minus 64 or 4096) through the same object: must equal a fresh object's output."

func TestC14Blocks(t *testing.T) {
	rec := stat.For("C14")
	rec.SetRule(c14Rule)
	rec.Require("block/nontrivial", "block/history-call-into-short-destination", "block/pools-hammered", "block/comp/hc-depth0", "block/comp/fast", "block/dst-below-bound")
	if thorough() {
		rec.Require("block/history>=1MiB")
	}
	checkProp(t, "C14", "C14/block", pick(6000, 60000), drawC14Block, runC14Block)
}

// TestC14FramesPinned: configurations a random draw reaches too rarely: legacy frames with two and more
// incompressible 8 MiB blocks in flight at once, 4 MiB blocks.
func TestC14FramesPinned(t *testing.T) {
	bubbleT = t
	rec := stat.For("C14")
	rec.SetRule(c14Rule)
	if shard != 0 {
		return
	}
	for _, c := range []c14FrameCase{
		{Opts: wopts{BS: 4, Conc: 1, Legacy: true}, Data: gen.Data{Segs: []gen.Seg{{K: "rand", N: 17<<20 + 100, S: 21}}}, Variants: []c14Variant{{Conc: 4}, {Conc: 2, Chunks: []int{5 << 20, 7 << 20}}}},
		{Opts: wopts{BS: 4, Conc: 1, Legacy: true}, Data: gen.Data{Segs: []gen.Seg{{K: "rand", N: 8<<20 + 8360000, S: 22}, {K: "text", N: 100000, S: 1, P: 4}}}, Variants: []c14Variant{{Conc: 16}}},
		{Opts: wopts{BS: 7, Conc: 1, BlockSum: true, ContentSum: true}, Data: gen.Data{Segs: []gen.Seg{{K: "rand", N: 9 << 20, S: 23}, {K: "text", N: 5 << 20, S: 2, P: 4}}}, Variants: []c14Variant{{Conc: 4}, {Conc: 2, Chunks: []int{1, 4 << 20, 4<<20 + 1}}}},
		// long stretches of stored blocks, then compressible ones (a Writer that adapts to "this stream does not compress" must do so at every concurrency level alike)
		{Opts: wopts{BS: 4, Conc: 1, ContentSum: true}, Data: gen.Data{Segs: []gen.Seg{{K: "rand", N: 21 << 16, S: 24}, {K: "text", N: 11 << 16, S: 3, P: 4}, {K: "rand", N: 40 << 16, S: 25}, {K: "text", N: 7<<16 + 5, S: 4, P: 3}}}, Variants: []c14Variant{{Conc: 2}, {Conc: 4, Chunks: []int{100000}}}},
		{Opts: wopts{BS: 5, Conc: 1, Level: uint32(lz4.Level1)}, Data: gen.Data{Segs: []gen.Seg{{K: "rand", N: 70 << 18, S: 26}, {K: "text", N: 9 << 18, S: 5, P: 4}}}, Variants: []c14Variant{{Conc: 4}}},
	} {
		pinned(t, "C14", "C14/frame", c, runC14Frame)
		rec.Class("frame/pinned-large")
	}
}

func TestC14Frames(t *testing.T) {
	bubbleT = t
	rec := stat.For("C14")
	rec.SetRule(c14Rule)
	rec.Require("frame/nontrivial", "frame/variant-conc=16", "frame/variant-conc=2", "frame/variant-partitioned")
	scale := envInt("VERIF_C14_SCALE", 100)
	checkProp(t, "C14", "C14/frame", pick(5000, 60000)*scale/100, drawC14Frame, runC14Frame)
}
