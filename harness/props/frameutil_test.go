package props

import (
	"bytes"
	"errors"
	"fmt"
	"io"
	"runtime"
	"sync"

	lz4 "github.com/pierrec/lz4/v4"
	"pgregory.net/rapid"

	"verifharness/inst"
)

// ---- Writer options

type wopts struct {
	BS         int    `json:"bs"`      // block-size code 4..7
	BlockSum   bool   `json:"bsum"`    // BlockChecksumOption
	ContentSum bool   `json:"csum"`    // ChecksumOption
	Size       bool   `json:"size"`    // SizeOption(len(input))
	Level      uint32 `json:"level"`   // 0 = Fast, else Level1..9 value
	Conc       int    `json:"conc"`    // 1, 2, 4, -1 (= GOMAXPROCS)
	Legacy     bool   `json:"legacy"`  // LegacyOption
	Handler    bool   `json:"handler"` // OnBlockDoneOption installed
}

var blockSizes = map[int]lz4.BlockSize{4: lz4.Block64Kb, 5: lz4.Block256Kb, 6: lz4.Block1Mb, 7: lz4.Block4Mb}
var levels = []uint32{0, uint32(lz4.Level1), uint32(lz4.Level2), uint32(lz4.Level3), uint32(lz4.Level4), uint32(lz4.Level5), uint32(lz4.Level6), uint32(lz4.Level7), uint32(lz4.Level8), uint32(lz4.Level9)}

func (o wopts) blockSize() int {
	if o.Legacy {
		return 8 << 20
	}
	return int(blockSizes[o.BS])
}

func (o wopts) options(n int, handler func(int)) []lz4.Option {
	opts := []lz4.Option{
		lz4.BlockSizeOption(blockSizes[o.BS]), lz4.BlockChecksumOption(o.BlockSum), lz4.ChecksumOption(o.ContentSum),
		lz4.CompressionLevelOption(lz4.CompressionLevel(o.Level)), lz4.ConcurrencyOption(o.Conc), lz4.LegacyOption(o.Legacy),
	}
	if o.Size {
		opts = append(opts, lz4.SizeOption(uint64(n)))
	}
	if o.Handler && handler != nil {
		opts = append(opts, lz4.OnBlockDoneOption(handler))
	}
	return opts
}

func (o wopts) String() string {
	return fmt.Sprintf("bs=%d bsum=%v csum=%v size=%v level=%d conc=%d legacy=%v", o.BS, o.BlockSum, o.ContentSum, o.Size, o.Level, o.Conc, o.Legacy)
}

func (o wopts) classes(prefix string) []string {
	c := []string{fmt.Sprintf("%sopt/bs=%d", prefix, o.BS), fmt.Sprintf("%sopt/conc=%d", prefix, o.Conc)}
	if o.BlockSum {
		c = append(c, prefix+"opt/blocksum")
	}
	if o.ContentSum {
		c = append(c, prefix+"opt/contentsum")
	}
	if o.Size {
		c = append(c, prefix+"opt/size")
	}
	if o.Legacy {
		c = append(c, prefix+"opt/legacy")
	}
	if o.Level == 0 {
		c = append(c, prefix+"opt/fast")
	} else {
		c = append(c, prefix+"opt/hc")
	}
	return c
}

// drawWopts draws an option vector. allowBig allows block sizes above 64 KiB; legacyW is the
// weight (0..10) of legacy mode.
func drawWopts(t *rapid.T, allowBig bool, legacyW int) wopts {
	var o wopts
	o.BS = 4
	if allowBig {
		o.BS = rapid.SampledFrom([]int{4, 4, 4, 4, 5, 5, 6, 7}).Draw(t, "bs")
	}
	o.BlockSum = rapid.Bool().Draw(t, "blocksum")
	o.ContentSum = rapid.Bool().Draw(t, "contentsum")
	o.Size = rapid.Bool().Draw(t, "size")
	if rapid.IntRange(0, 2).Draw(t, "hc?") == 0 {
		o.Level = rapid.SampledFrom(levels[1:]).Draw(t, "level")
	}
	o.Conc = rapid.SampledFrom([]int{1, 1, 2, 4, -1}).Draw(t, "conc")
	o.Legacy = rapid.IntRange(1, 10).Draw(t, "legacy?") <= legacyW
	o.Handler = rapid.Bool().Draw(t, "handler")
	return o
}

// ---- deliveries

type delivery struct {
	Mode    string `json:"mode"`             // write | readfrom
	Chunks  []int  `json:"chunks,omitempty"` // sizes of the Write calls (the rest goes into a last call)
	Flush   []bool `json:"flush,omitempty"`  // Flush after the i-th Write
	Src     []int  `json:"src,omitempty"`    // readfrom: chunk schedule of the source (0 = empty read)
	EOFWith bool   `json:"eofwith,omitempty"`
}

func (d delivery) nFlush() int {
	n := 0
	for _, f := range d.Flush {
		if f {
			n++
		}
	}
	return n
}

// drawDelivery draws a way of feeding n bytes into a Writer with block size bs.
func drawDelivery(t *rapid.T, n, bs int, allowFlush, allowReadFrom bool) delivery {
	var d delivery
	if allowReadFrom && rapid.IntRange(0, 3).Draw(t, "readfrom?") == 0 {
		d.Mode = "readfrom"
		d.Src = drawChunkSchedule(t, bs, "src")
		d.EOFWith = rapid.Bool().Draw(t, "eofwith")
		return d
	}
	d.Mode = "write"
	k := rapid.IntRange(0, 8).Draw(t, "ncuts")
	left := n
	for i := 0; i < k && left > 0; i++ {
		var c int
		switch rapid.IntRange(0, 5).Draw(t, "cutclass") {
		case 0:
			c = 1
		case 1:
			c = bs - 1
		case 2:
			c = bs
		case 3:
			c = bs + 1
		case 4:
			c = rapid.IntRange(0, 64).Draw(t, "cut")
		default:
			c = rapid.IntRange(0, left).Draw(t, "cut")
		}
		if c > left {
			c = left
		}
		d.Chunks = append(d.Chunks, c)
		left -= c
		d.Flush = append(d.Flush, allowFlush && rapid.IntRange(0, 3).Draw(t, "flush?") == 0)
	}
	return d
}

func drawChunkSchedule(t *rapid.T, bs int, label string) []int {
	switch rapid.IntRange(0, 4).Draw(t, label+".kind") {
	case 0:
		return nil // whatever fits
	case 1:
		return []int{1}
	case 2:
		return []int{rapid.IntRange(1, 9).Draw(t, label+".c")}
	case 3:
		return rapid.SliceOfN(rapid.SampledFrom([]int{0, 1, 2, 3, 4, 7, 8, 100, 4095, bs - 1, bs, bs + 1}), 1, 6).Draw(t, label+".cs")
	default:
		return rapid.SliceOfN(rapid.IntRange(0, 2*bs), 1, 5).Draw(t, label+".cs")
	}
}

// deliver feeds data into w as described; it returns the first error and which call returned it.
func deliver(w *lz4.Writer, data []byte, d delivery) (string, error) {
	if d.Mode == "readfrom" {
		src := &inst.Source{Data: data, Chunks: d.Src, EOFWith: d.EOFWith}
		n, err := w.ReadFrom(src)
		if err != nil {
			return "ReadFrom", err
		}
		if n != int64(len(data)) {
			return "ReadFrom", fmt.Errorf("ReadFrom returned %d for %d bytes", n, len(data))
		}
		return "", nil
	}
	pos := 0
	for i, c := range d.Chunks {
		if pos+c > len(data) {
			c = len(data) - pos
		}
		n, err := writeScribbled(w, data[pos:pos+c])
		if err != nil {
			return fmt.Sprintf("Write#%d", i), err
		}
		if n != c {
			return fmt.Sprintf("Write#%d", i), fmt.Errorf("Write returned %d for %d bytes", n, c)
		}
		pos += c
		if i < len(d.Flush) && d.Flush[i] {
			if err := w.Flush(); err != nil {
				return fmt.Sprintf("Flush#%d", i), err
			}
		}
	}
	if pos < len(data) || len(d.Chunks) == 0 {
		n, err := writeScribbled(w, data[pos:])
		if err != nil {
			return "Write#last", err
		}
		if n != len(data)-pos {
			return "Write#last", fmt.Errorf("Write returned %d for %d bytes", n, len(data)-pos)
		}
	}
	return "", nil
}

// writeScribbled hands w a private copy of p and overwrites that copy as soon as Write has
// returned: an io.Writer must not retain p, and callers do reuse their buffers.
func writeScribbled(w io.Writer, p []byte) (int, error) {
	bp := scribblePool.Get().(*[]byte)
	if cap(*bp) < len(p) {
		*bp = make([]byte, len(p))
	}
	buf := (*bp)[:len(p)]
	copy(buf, p)
	n, err := w.Write(buf)
	for i := range buf {
		buf[i] = 0x5A
	}
	scribblePool.Put(bp)
	return n, err
}

var scribblePool = sync.Pool{New: func() interface{} { b := make([]byte, 1<<16); return &b }}

// ---- reader configurations

type rcfg struct {
	Conc      int   `json:"conc"`
	WriteTo   bool  `json:"writeto"`
	Sizes     []int `json:"sizes,omitempty"`     // cyclic Read buffer sizes
	Src       []int `json:"src,omitempty"`       // fragmentation of the compressed source
	EOFWith   bool  `json:"eofwith,omitempty"`   // the source returns its last bytes together with io.EOF
	Seeker    bool  `json:"seeker,omitempty"`    // the source also implements io.Seeker (like bytes.Reader / os.File)
	ZeroBurst int   `json:"zeroburst,omitempty"` // the source answers this many (0, nil) reads in a row before every chunk of data
}

func drawRcfg(t *rapid.T, bs int) rcfg {
	var r rcfg
	r.Conc = rapid.SampledFrom([]int{1, 1, 2, 4, -1}).Draw(t, "rconc")
	r.WriteTo = rapid.IntRange(0, 3).Draw(t, "writeto?") == 0
	if !r.WriteTo {
		r.Sizes = rapid.SliceOfN(rapid.SampledFrom([]int{1, 7, 4095, bs - 1, bs, bs + 1, 2 * bs, 64 << 20}), 1, 4).Draw(t, "rsizes")
	}
	if rapid.IntRange(0, 2).Draw(t, "rsrc?") == 0 {
		r.Src = drawChunkSchedule(t, bs, "rsrc")
	}
	r.EOFWith = rapid.IntRange(0, 3).Draw(t, "reofwith") == 0
	r.Seeker = rapid.IntRange(0, 2).Draw(t, "rseeker") == 0
	return r
}

type readResult struct {
	Out      []byte
	Err      error // nil = clean end of stream
	Consumed int
	Size     int
	EOFAgain error // what a further Read returned after the end of stream (want io.EOF)
	ExtraN   int
}

// readAll decodes z as configured. A clean end of stream is reported as Err == nil.
func readAll(z []byte, rc rcfg, handler func(int)) readResult {
	return readAllAfter(nil, z, rc, handler)
}

// readAllAfter is readAll on a Reader that has decoded the streams of prev before (each to its end, or to its error), with
// Reset in between: what an earlier stream leaves behind in the object must not show.
func readAllAfter(prev [][]byte, z []byte, rc rcfg, handler func(int)) readResult {
	ss := &inst.SeekSource{Source: inst.Source{Data: z, Chunks: rc.Src, EOFWith: rc.EOFWith, ZeroBurst: rc.ZeroBurst}}
	src := &ss.Source
	var rdr io.Reader = src
	if rc.Seeker {
		rdr = ss
	}
	r := lz4.NewReader(rdr)
	opts := []lz4.Option{lz4.ConcurrencyOption(rc.Conc)}
	if handler != nil {
		opts = append(opts, lz4.OnBlockDoneOption(handler))
	}
	var res readResult
	if err := r.Apply(opts...); err != nil {
		res.Err = fmt.Errorf("Reader.Apply: %w", err)
		return res
	}
	if len(prev) > 0 {
		scratch := make([]byte, 1<<16)
		for _, p := range prev {
			r.Reset(bytes.NewReader(p))
			for {
				if _, err := r.Read(scratch); err != nil {
					break
				}
			}
		}
		r.Reset(rdr)
	}
	if rc.WriteTo {
		var sink inst.Sink
		_, err := r.WriteTo(&sink)
		res.Out, res.Err = sink.Buf, err
		res.Consumed, res.Size = src.Consumed(), r.Size()
		return res
	}
	maxBuf := 0
	for _, s := range rc.Sizes {
		if s > maxBuf {
			maxBuf = s
		}
	}
	if maxBuf == 0 {
		maxBuf = 4096
	}
	if maxBuf > 9<<20 {
		maxBuf = 9 << 20
	}
	bp := readBufPool.Get().(*[]byte)
	defer readBufPool.Put(bp)
	if len(*bp) < maxBuf {
		*bp = make([]byte, maxBuf)
	}
	buf := (*bp)[:maxBuf]
	for i := 0; ; i++ {
		sz := 4096
		if len(rc.Sizes) > 0 {
			sz = rc.Sizes[i%len(rc.Sizes)]
		}
		if sz > maxBuf {
			sz = maxBuf
		}
		n, err := r.Read(buf[:sz])
		if n < 0 || n > sz {
			res.Err = fmt.Errorf("Read returned n=%d for a buffer of %d", n, sz)
			return res
		}
		res.Out = append(res.Out, buf[:n]...)
		// the caller owns its buffer again: overwrite what was returned (a Reader must not keep using it)
		for k := 0; k < n; k++ {
			buf[k] = 0x5A
		}
		if err != nil {
			res.Consumed, res.Size = src.Consumed(), r.Size()
			if errors.Is(err, io.EOF) && err == io.EOF {
				n2, err2 := r.Read(buf[:sz])
				res.EOFAgain, res.ExtraN = err2, n2
				return res
			}
			res.Err = err
			return res
		}
		if n == 0 && sz > 0 && i > 1<<22 {
			res.Err = fmt.Errorf("Read made no progress")
			return res
		}
	}
}

var readBufPool = sync.Pool{New: func() interface{} { b := make([]byte, 1<<16); return &b }}

func concOf(n int) int {
	if n <= 0 {
		return runtime.GOMAXPROCS(0)
	}
	return n
}
