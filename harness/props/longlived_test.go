package props

import (
	"bytes"
	"fmt"
	"runtime/debug"
	"testing"

	lz4 "github.com/pierrec/lz4/v4"

	"verifharness/gen"
	"verifharness/ref"
	"verifharness/stat"
)

// Long-lived compressor objects (C01, C10, C14): the three properties quantify over compressors "that processed other
// inputs before", of any history. Two regimes a random draw of a few steps cannot reach:
//   calls: the targets are compressed exactly G calls after nearly identical inputs, for G around the powers of two where
//          an 8-, 16- or 17-bit generation counter would wrap, with only small inputs in between;
//   bytes: the targets are compressed after the object has taken in 2^31, 2^32, 2^33 bytes (minus a little), where a
//          32-bit running position base would wrap or change sign.
// The oracle is the one of the property named in the case.

type llCase struct {
	Prop   string  `json:"prop"`             // C01 | C10 | C14
	Kind   string  `json:"kind"`             // fast-obj | hc-obj
	Regime string  `json:"regime"`           // calls | bytes | huge
	Smalls string  `json:"smalls,omitempty"` // calls regime: "all>=40" (every call is long enough to use the tables) | "mixed" (0, 10, 20, 40 bytes)
	Feed   string  `json:"feed,omitempty"`   // bytes regime: "mixed" (a repeated 32 KiB random chunk and zeros: most table slots get written) | "zeros" (one slot written, all others stay untouched)
	Stops  []int64 `json:"stops"`            // calls: gaps (number of calls between a related input and the target); bytes: cumulative input volume before the targets
}

func llTargets() [][]byte { return llTargetsAt(0) }

// llTargetsAt: the first target has other random bytes at every stop, so that the table slots it probes have not been
// written by the same target at an earlier stop.
func llTargetsAt(stop int) [][]byte {
	// the first target: random bytes with one 8-byte group at 8, 64 and 4096 (an implementation whose stale or untouched
	// table entries read as a position ahead of the cursor finds a "match" there: the stops are 64 and 4096 bytes
	// below the powers of two)
	first := gen.Data{Segs: []gen.Seg{{K: "rand", N: 4200, S: uint64(3000 + stop)}}}.Build()
	copy(first[64:72], first[8:16])
	copy(first[4096:4104], first[8:16])
	return [][]byte{
		first,
		gen.Data{Segs: []gen.Seg{{K: "period", N: 8192, S: 31, P: 4}}}.Build(),
		gen.Data{Segs: []gen.Seg{{K: "rand", N: 72, S: 32}, {K: "copy", N: 8, P: 56, S: 1}, {K: "rand", N: 120, S: 33}}}.Build(),
		gen.Data{Segs: []gen.Seg{{K: "text", N: 3000, S: 5, P: 3}, {K: "rand", N: 500, S: 6}, {K: "copy", N: 400, P: 700, S: 1}}}.Build(),
	}
}

// llVariant: nearly the same bytes at the same positions, scanned with another stride (a run at the start), so that
// the entries it leaves in the tables point at content the target shares.
func llVariant(t []byte) []byte {
	v := append([]byte(nil), t...)
	copy(v, "aaaaaaaaa")
	if len(v) > 1502 {
		v[1500], v[1501] = 'z', 'z'
	}
	return v
}

func llJudge(c llCase, rec *stat.Rec, where string, target, want []byte, wn int, comp func(src, dst []byte) (int, error)) *stat.Failure {
	dst := make([]byte, lz4.CompressBlockBound(len(target)))
	var gn int
	var gerr error
	var pan interface{}
	func() {
		defer func() {
			if r := recover(); r != nil {
				pan = fmt.Sprintf("%v\n%s", r, debug.Stack())
			}
		}()
		gn, gerr = comp(target, dst)
	}()
	rec.Eval()
	kind := c.Kind[:2]
	if pan != nil {
		if c.Prop == "C10" {
			rec.Class("longlived/skipped/panic-belongs-to-C01")
			return nil
		}
		return stat.Failf(c.Prop+"/longlived/"+kind+"/panic-after-a-long-history", "%s: %s %s: CompressBlock panics: %.300v", where, c.Kind, c.Regime, pan)
	}
	switch c.Prop {
	case "C01":
		if gerr != nil || gn <= 0 || gn > len(dst) {
			return stat.Failf("C01/longlived/"+kind+"/compress-fails-with-bound-sized-dst", "%s: %s len(src)=%d len(dst)=%d: n=%d err=%v", where, c.Kind, len(target), len(dst), gn, gerr)
		}
		out := make([]byte, len(target))
		m, derr := lz4.UncompressBlock(dst[:gn], out)
		res := ref.DecodeBlock(dst[:gn], len(target), nil)
		if derr != nil || m != len(target) || !bytes.Equal(out[:minI(m, len(out))], target) || res.Kind != ref.OK || !bytes.Equal(res.Out, target) {
			return stat.Failf("C01/longlived/"+kind+"/round-trip-differs", "%s: %s len(src)=%d: UncompressBlock n=%d err=%v; reference decode %s %s", where, c.Kind, len(target), m, derr, res.Kind, res.Why)
		}
	case "C10":
		if gn <= 0 || gn > len(dst) {
			rec.Class("longlived/outcome/no-block-produced")
			return nil
		}
		if why := ref.StrictValidate(dst[:gn], len(target)); why != "" {
			return stat.Failf("C10/longlived/"+kind+"/not-strictly-valid/"+firstWords(why, 4), "%s: %s len(src)=%d n=%d: %s", where, c.Kind, len(target), gn, why)
		}
		if n, out, ok := refLibDecode(dst[:gn], len(target), nil); ok && (n != len(target) || !bytes.Equal(out, target)) {
			return stat.Failf("C10/longlived/"+kind+"/reference-library-does-not-decode-the-block", "%s: %s len(src)=%d n=%d: LZ4_decompress_safe returns %d", where, c.Kind, len(target), gn, n)
		}
		if res := ref.DecodeBlock(dst[:gn], len(target), nil); !bytes.Equal(res.Out, target) {
			return stat.Failf("C10/longlived/"+kind+"/strict-decode-differs", "%s: %s len(src)=%d n=%d: first difference at %d", where, c.Kind, len(target), gn, firstDiff(res.Out, target))
		}
	case "C14":
		if gerr != nil || gn != wn || !bytes.Equal(dst[:minI(maxI(gn, 0), len(dst))], want[:wn]) {
			return stat.Failf("C14/longlived/"+kind+"/output-depends-on-the-history-of-the-object", "%s: %s gives n=%d err=%v, a fresh compressor gives n=%d (first difference at %d)", where, c.Kind, gn, gerr, wn, firstDiff(dst[:minI(maxI(gn, 0), len(dst))], want[:wn]))
		}
	}
	return nil
}

func runLongLived(c llCase, rec *stat.Rec) *stat.Failure {
	targets := llTargets()
	depth := uint32(4)
	wants := make([][]byte, len(targets))
	wns := make([]int, len(targets))
	for i, tg := range targets {
		var fresh blockComps
		wants[i] = make([]byte, lz4.CompressBlockBound(len(tg)))
		wns[i], _ = fresh.compress(c.Kind, depth, tg, wants[i])
	}
	var used blockComps
	comp := func(src, dst []byte) (int, error) { return used.compress(c.Kind, depth, src, dst) }
	scratch := make([]byte, 16384)
	switch c.Regime {
	case "calls":
		var smalls [][]byte
		if c.Smalls == "mixed" {
			smalls = [][]byte{[]byte("abcabcabcabcabcabcab"), []byte("0123456789"), targets[3][:40], {}}
		} else {
			for i := 0; i < 8; i++ {
				smalls = append(smalls, gen.Data{Segs: []gen.Seg{{K: "text", N: 40 + 3*i, S: uint64(40 + i), P: 5}}}.Build())
			}
		}
		calls := int64(0)
		for _, gap := range c.Stops {
			if gap < int64(len(targets)) {
				continue
			}
			for _, tg := range targets {
				_, _ = comp(llVariant(tg), scratch)
				calls++
			}
			for k := int64(0); k < gap-int64(len(targets)); k++ {
				_, _ = comp(smalls[int(calls)%len(smalls)], scratch)
				calls++
			}
			for i, tg := range targets {
				calls++
				where := fmt.Sprintf("target %d, call number %d on the object, %d calls after a nearly identical input (small inputs %s in between)", i, calls, gap, c.Smalls)
				if f := llJudge(c, rec, where, tg, wants[i], wns[i], comp); f != nil {
					return f
				}
			}
			rec.Class("longlived/calls")
			rec.NonTrivial(stat.FP("llcalls", c.Prop, c.Kind, c.Smalls, gap))
		}
	case "huge":
		// one call on a fresh object with a source larger than any frame block: literal runs of more than 2^23 bytes
		// (their length takes > 32896 bytes to write), as the final sequence and in front of a match; matches of more than 2^23 bytes
		for _, n := range c.Stops {
			for shape, d := range []gen.Data{
				{Segs: []gen.Seg{{K: "rand", N: int(n), S: uint64(n)}}},
				{Segs: []gen.Seg{{K: "rand", N: int(n), S: uint64(n) + 1}, {K: "copy", N: 300, P: 5000, S: 1}, {K: "rand", N: 40, S: 3}}},
				{Segs: []gen.Seg{{K: "rand", N: 100, S: uint64(n) + 2}, {K: "run", N: int(n), P: 0}, {K: "rand", N: 30, S: 4}}}, // one match longer than 2^23
				{Segs: []gen.Seg{{K: "period", N: int(n) + 3, S: uint64(n) + 3, P: 7}, {K: "rand", N: 30, S: 5}}},
			} {
				src := d.Build()
				var fresh, again blockComps
				want := make([]byte, lz4.CompressBlockBound(len(src)))
				wn, _ := fresh.compress(c.Kind, 1, src, want)
				where := fmt.Sprintf("one call, source of %d bytes (shape %d: %v)", len(src), shape, d.Describe())
				if f := llJudge(c, rec, where, src, want, wn, func(src, dst []byte) (int, error) {
					for i := range dst[:minI(len(dst), 1<<16)] {
						dst[i] = 0x5A
					}
					return again.compress(c.Kind, 1, src, dst)
				}); f != nil {
					return f
				}
				rec.Class("longlived/huge-source")
				rec.NonTrivial(stat.FP("llhuge", c.Prop, c.Kind, n, shape))
			}
		}
	case "bytes":
		const feedLen = 16 << 20
		feed := make([]byte, feedLen)
		gen.Fill(feed[:32<<10], 77)
		for n := 32 << 10; n < feedLen; n *= 2 {
			copy(feed[n:], feed[:n])
		}
		zeros := make([]byte, feedLen)
		fdst := make([]byte, lz4.CompressBlockBound(feedLen))
		feedDepth := uint32(1)
		vol := int64(0)
		k := 0
		for si, stop := range c.Stops {
			for vol < stop {
				n := stop - vol
				if n > feedLen {
					n = feedLen
				}
				src := feed
				if k%3 == 2 || c.Feed == "zeros" {
					src = zeros
				}
				k++
				if _, err := used.compress(c.Kind, feedDepth, src[:n], fdst); err != nil && c.Prop == "C01" {
					return stat.Failf("C01/longlived/"+c.Kind[:2]+"/compress-fails-with-bound-sized-dst", "feeding call %d (%d bytes, after %d bytes through the object): err=%v", k, n, vol, err)
				}
				vol += n
			}
			targets[0] = llTargetsAt(si + 1)[0]
			{
				var fresh blockComps
				wns[0], _ = fresh.compress(c.Kind, depth, targets[0], wants[0])
			}
			for i, tg := range targets {
				where := fmt.Sprintf("target %d after %d bytes (2^32%+d) through the object in %d calls", i, vol, vol-1<<32, k)
				if f := llJudge(c, rec, where, tg, wants[i], wns[i], comp); f != nil {
					return f
				}
				vol += int64(len(tg))
			}
			rec.Class("longlived/bytes>=2^31")
			if vol >= 1<<32 {
				rec.Class("longlived/bytes>=2^32")
			}
			rec.NonTrivial(stat.FP("llbytes", c.Prop, c.Kind, c.Feed, stop))
		}
	}
	rec.Sample(map[string]interface{}{"longlived": c.Regime, "kind": c.Kind, "stops": fmt.Sprint(c.Stops), "smalls": c.Smalls, "feed": c.Feed})
	return nil
}

func init() {
	register("C01", "C01/longlived", runLongLived)
	register("C10", "C10/longlived", runLongLived)
	register("C14", "C14/longlived", runLongLived)
}

func longLivedCases(prop string) []llCase {
	gaps := []int64{255, 256, 257, 65535, 65536, 65537}
	if thorough() {
		gaps = append(gaps, 131071, 131072, 131073, 65534, 65535, 65536, 196605, 196608)
	}
	vols := []int64{1<<31 - 4096, 1<<32 - 4096, 1<<32 + 1<<31 - 64, 1<<33 - 64}
	if thorough() {
		vols = append(vols, 3<<32-1024, 1<<34-4096)
	}
	var cs []llCase
	for _, kind := range []string{"fast-obj", "hc-obj"} {
		cs = append(cs, llCase{Prop: prop, Kind: kind, Regime: "calls", Smalls: "all>=40", Stops: gaps})
		if prop == "C14" || thorough() {
			cs = append(cs, llCase{Prop: prop, Kind: kind, Regime: "calls", Smalls: "mixed", Stops: gaps})
		}
		cs = append(cs, llCase{Prop: prop, Kind: kind, Regime: "bytes", Feed: "mixed", Stops: vols}, llCase{Prop: prop, Kind: kind, Regime: "bytes", Feed: "zeros", Stops: vols})
		huge := []int64{9 << 20}
		if thorough() {
			huge = append(huge, 17<<20, 33<<20+5)
		}
		cs = append(cs, llCase{Prop: prop, Kind: kind, Regime: "huge", Stops: huge})
	}
	return cs
}

func testLongLived(t *testing.T, prop string) {
	cs := longLivedCases(prop)
	for i, c := range cs {
		if i%nshards != shard {
			continue
		}
		pinned(t, prop, prop+"/longlived", c, runLongLived)
	}
}

func TestC01LongLived(t *testing.T) { stat.For("C01").SetRule(c01Rule); testLongLived(t, "C01") }
func TestC10LongLived(t *testing.T) { stat.For("C10").SetRule(c10Rule); testLongLived(t, "C10") }
func TestC14LongLived(t *testing.T) { stat.For("C14").SetRule(c14Rule); testLongLived(t, "C14") }
