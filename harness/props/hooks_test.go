package props

import (
	"sync/atomic"

	lz4 "github.com/pierrec/lz4/v4"
)

// Hook plumbing: the library (built with -tags verif) calls these at pipeline hand-off
// points and whenever a block buffer goes back to a pool.
var (
	yieldHook  atomic.Pointer[func(int)]
	poisonOn   atomic.Bool
	poisonCtr  atomic.Uint32
	putCounter atomic.Int64
)

func installHooks() {
	lz4.VerifSetHooks(
		func(site int) {
			if f := yieldHook.Load(); f != nil {
				(*f)(site)
			}
		},
		func(buf []byte) {
			putCounter.Add(1)
			if !poisonOn.Load() {
				return
			}
			// per-release pattern: a use after release shows as a byte difference (and
			// as a write/read race under the race detector)
			p := byte(0xA5 ^ byte(poisonCtr.Add(1)*37))
			for i := range buf {
				buf[i] = p
			}
		})
}
