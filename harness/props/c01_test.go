package props

import (
	"bytes"
	"testing"

	lz4 "github.com/pierrec/lz4/v4"
	"pgregory.net/rapid"

	"verifharness/gen"
	"verifharness/ref"
	"verifharness/stat"
)

// C01: block round trip for every input and compressor.

type c01Step struct {
	Data  gen.Data `json:"data"`
	Comp  string   `json:"comp"`            // fast-obj | fast-pkg | hc-obj | hc-pkg
	Depth uint32   `json:"depth"`           // HC search depth
	Extra int      `json:"extra"`           // destination = bound + extra
	Spare int      `json:"spare"`           // spare capacity behind the destination
	Short int      `json:"short,omitempty"` // > 0: history step only - the destination has this many bytes, so the call may fail part-way; nothing is judged
	// Rel (steps after the first): the source is derived from the previous step's source instead of Data - same | drop (its first RelN
	// bytes removed) | prepend (RelN bytes of Data in front of it) | head (its first RelN bytes) | tail (its last RelN bytes) | append (Data behind it).
	// A reused compressor then meets byte groups it has seen before, at other positions.
	Rel  string `json:"rel,omitempty"`
	RelN int    `json:"reln,omitempty"`
}

// relSrc derives the source of a step from the previous step's source.
func (s c01Step) relSrc(prev []byte) []byte {
	own := s.Data.Build()
	n := s.RelN
	if n > len(prev) {
		n = len(prev)
	}
	switch s.Rel {
	case "same":
		return prev
	case "drop":
		return append([]byte(nil), prev[n:]...)
	case "prepend":
		if n > len(own) {
			n = len(own)
		}
		return append(append([]byte(nil), own[:n]...), prev...)
	case "head":
		return append([]byte(nil), prev[:n]...)
	case "tail":
		return append([]byte(nil), prev[len(prev)-n:]...)
	case "append":
		return append(append([]byte(nil), prev...), own...)
	}
	return own
}

type c01Case struct {
	Steps []c01Step `json:"steps"` // all steps share one Compressor and one CompressorHC
}

var hcDepths = []uint32{0, 1, 2, 3, 4, 7, 16, 64,
	uint32(lz4.Level1), uint32(lz4.Level2), uint32(lz4.Level3), uint32(lz4.Level4), uint32(lz4.Level5),
	uint32(lz4.Level6), uint32(lz4.Level7), uint32(lz4.Level8), uint32(lz4.Level9),
	65535, 65536, 65537, 1 << 20, 1<<32 - 1}

func effDepth(d uint32) int {
	if d == 0 || d > 65536 {
		return 65536
	}
	return int(d)
}

func hasLowEntropySeg(d gen.Data) bool {
	for _, s := range d.Segs {
		if (s.K == "text" || s.K == "raw") && s.N > 64 {
			return true
		}
	}
	return false
}

// drawBlockStep draws one compression step; HC depth is lowered when the worst-case chain
// work (length x depth on low-entropy text) would exceed the budget of the tier.
func drawBlockStep(t *rapid.T, maxLen int) c01Step {
	var s c01Step
	s.Comp = rapid.SampledFrom([]string{"fast-obj", "fast-obj", "fast-pkg", "hc-obj", "hc-obj", "hc-pkg"}).Draw(t, "comp")
	s.Data = gen.DrawData(t, maxLen, "src")
	if s.Comp == "hc-obj" || s.Comp == "hc-pkg" {
		s.Depth = rapid.SampledFrom(hcDepths).Draw(t, "depth")
		if hasLowEntropySeg(s.Data) {
			budget := pick(1<<26, 1<<29)
			if n := s.Data.Len(); n > 0 && effDepth(s.Depth)*n > budget {
				d := budget / n
				if d < 1 {
					d = 1
				}
				s.Depth = uint32(d)
			}
		}
	}
	s.Extra = rapid.SampledFrom([]int{0, 0, 1, 7, 4096}).Draw(t, "extra")
	s.Spare = rapid.SampledFrom([]int{0, 0, 1, 64}).Draw(t, "spare")
	return s
}

func drawC01(t *rapid.T) c01Case {
	var c c01Case
	if rapid.IntRange(0, 3).Draw(t, "related?") == 0 {
		// one compressor object, 2..7 sources derived from one another (shifted, cut, extended), starting small or large
		comp := rapid.SampledFrom([]string{"fast-obj", "fast-obj", "hc-obj", "fast-pkg"}).Draw(t, "relcomp")
		first := drawBlockStep(t, rapid.SampledFrom([]int{16, 24, 40, 300, 70000, 200000}).Draw(t, "firstmax"))
		first.Comp = comp
		c.Steps = append(c.Steps, first)
		for i, n := 1, rapid.IntRange(2, 7).Draw(t, "nrel"); i < n; i++ {
			st := drawBlockStep(t, rapid.SampledFrom([]int{8, 40, 3000}).Draw(t, "ownmax"))
			st.Comp, st.Depth = comp, first.Depth
			st.Rel = rapid.SampledFrom([]string{"drop", "drop", "prepend", "head", "tail", "append", "same"}).Draw(t, "rel")
			st.RelN = rapid.SampledFrom([]int{1, 1, 2, 3, 5, 8, 15, 16, 17, 100, 65536}).Draw(t, "reln")
			if i < n-1 && rapid.IntRange(0, 4).Draw(t, "relshort?") == 0 {
				st.Short = rapid.IntRange(1, 40).Draw(t, "relshortn")
			}
			c.Steps = append(c.Steps, st)
		}
		return c
	}
	n := rapid.IntRange(1, 4).Draw(t, "nsteps")
	maxLen := pick(256<<10, 4<<20)
	for i := 0; i < n; i++ {
		st := drawBlockStep(t, maxLen)
		// history steps into a too-small destination: a compressor that has failed part-way is still a compressor
		// "that processed other inputs before"; the last step is always a judged one
		if i < n-1 && rapid.IntRange(0, 3).Draw(t, "short?") == 0 {
			st.Short = rapid.IntRange(1, maxI(1, lz4.CompressBlockBound(st.Data.Len())-1)).Draw(t, "short")
		}
		c.Steps = append(c.Steps, st)
	}
	return c
}

type blockComps struct {
	fast lz4.Compressor
	hc   lz4.CompressorHC
}

func (bc *blockComps) compress(comp string, depth uint32, src, dst []byte) (int, error) {
	switch comp {
	case "fast-obj":
		return bc.fast.CompressBlock(src, dst)
	case "fast-pkg":
		return lz4.CompressBlock(src, dst, nil)
	case "hc-obj":
		bc.hc.Level = lz4.CompressionLevel(depth)
		return bc.hc.CompressBlock(src, dst)
	default:
		return lz4.CompressBlockHC(src, dst, lz4.CompressionLevel(depth), nil, nil)
	}
}

// classifyBlock labels a compressed block by what its sequences look like.
func classifyBlock(rec *stat.Rec, prefix string, seqs []ref.Seq) (matches int) {
	maxOff := 0
	extLit, extMatch := false, false
	for _, s := range seqs {
		if s.ExtLit > 1 {
			extLit = true
		}
		if s.HasMatch {
			matches++
			if s.Offset > maxOff {
				maxOff = s.Offset
			}
			if s.ExtMatch > 1 {
				extMatch = true
			}
		}
	}
	switch {
	case matches == 0:
		rec.Class(prefix + "block/no-match")
	case maxOff >= 65000:
		rec.Class(prefix + "block/max-offset>=65000")
	case maxOff >= 4096:
		rec.Class(prefix + "block/max-offset>=4096")
	default:
		rec.Class(prefix + "block/max-offset<4096")
	}
	if maxOff == 65535 {
		rec.Class(prefix + "block/offset==65535")
	}
	if extLit {
		rec.Class(prefix + "block/multi-byte-literal-length")
	}
	if extMatch {
		rec.Class(prefix + "block/multi-byte-match-length")
	}
	return matches
}

func srcLenClass(n int) string {
	switch {
	case n <= 16:
		return "src/0..16"
	case n <= 64:
		return "src/17..64"
	case n <= 4096:
		return "src/65..4096"
	case n <= 65536:
		return "src/4097..64Ki"
	case n <= 1<<20:
		return "src/64Ki..1Mi"
	default:
		return "src/>1Mi"
	}
}

func depthClass(comp string, d uint32) string {
	if comp[:2] != "hc" {
		return "comp/fast"
	}
	switch {
	case d == 0:
		return "comp/hc-depth0"
	case d <= 16:
		return "comp/hc-depth1..16"
	case d <= 65535:
		return "comp/hc-depth17..65535"
	default:
		return "comp/hc-depth>=65536"
	}
}

func runC01(c c01Case, rec *stat.Rec) *stat.Failure {
	var bc blockComps
	var prev []byte
	for i, s := range c.Steps {
		src := s.Data.Build()
		if s.Rel != "" && i > 0 {
			src = s.relSrc(prev)
			rec.Class("history/source-derived-from-the-previous-one/" + s.Rel)
		}
		prev = src
		bound := lz4.CompressBlockBound(len(src))
		if s.Short > 0 {
			_, _ = bc.compress(s.Comp, s.Depth, src, make([]byte, s.Short))
			rec.Class("history/short-destination-call")
			continue
		}
		back := make([]byte, bound+s.Extra+s.Spare)
		for j := range back {
			back[j] = 0xCD
		}
		dst := back[:bound+s.Extra]
		rec.Eval()
		n, err := bc.compress(s.Comp, s.Depth, src, dst)
		if err != nil || n <= 0 {
			return stat.Failf("C01/compress-fails-with-bound-sized-dst/"+s.Comp[:2], "step %d: %s depth %d len(src)=%d len(dst)=%d: n=%d err=%v", i, s.Comp, s.Depth, len(src), len(dst), n, err)
		}
		if n > len(dst) {
			return stat.Failf("C01/n-exceeds-dst/"+s.Comp[:2], "step %d: n=%d len(dst)=%d", i, n, len(dst))
		}
		out := make([]byte, len(src))
		m, derr := lz4.UncompressBlock(dst[:n], out)
		res := ref.DecodeBlock(dst[:n], len(src), nil)
		refOK := res.Kind == ref.OK && bytes.Equal(res.Out, src)
		if derr != nil || m != len(src) || !bytes.Equal(out[:minI(m, len(out))], src) {
			who := "decoder"
			if !refOK {
				who = "encoder"
			}
			return stat.Failf("C01/round-trip-differs/"+s.Comp[:2]+"/"+who, "step %d: %s depth %d len(src)=%d: UncompressBlock n=%d err=%v; reference decode: %s %s equal=%v", i, s.Comp, s.Depth, len(src), m, derr, res.Kind, res.Why, refOK)
		}
		if !refOK {
			return stat.Failf("C01/reference-rejects-block/"+s.Comp[:2], "step %d: %s depth %d len(src)=%d: library round trip fine but reference decoder says %s %s", i, s.Comp, s.Depth, len(src), res.Kind, res.Why)
		}
		matches := classifyBlock(rec, "", res.Seqs)
		rec.Class(srcLenClass(len(src)), depthClass(s.Comp, s.Depth), "kind/"+s.Comp)
		if i > 0 {
			rec.Class("compressor/reused")
		}
		if matches > 0 {
			rec.NonTrivial(stat.FP(src, s.Comp, s.Depth))
			rec.Class("nontrivial")
		}
		rec.Sample(map[string]interface{}{"step": i, "comp": s.Comp, "depth": s.Depth, "len(src)": len(src), "src": s.Data.Describe(), "compressed": n, "matches": matches})
	}
	return nil
}

func minI(a, b int) int {
	if a < b {
		return a
	}
	return b
}

func init() { register("C01", "C01/roundtrip", runC01) }

const c01Rule = "rapid-drawn lists of 1..4 compression steps sharing one Compressor/CompressorHC (so steps 2+ run on a reused object) or going " +
	"through the pooled package functions; sources from the segment grammar (random, small-alphabet text, runs, periodic, copy-back at distances " +
	"incl. 65534..65537, counters) with total-length classes 0..16, 17..64, ..4096, 64Ki+-16, ..1Mi, ..4Mi; HC depth from {0,1,2,3,4,7,16,64," +
	"Level1..9,65535,65536,65537,2^20,2^32-1}. One case in four is a history of 2..7 *related* sources on one object: each derived from the previous one (its first k bytes dropped, k bytes put in front, " +
	"its head or tail of k bytes, extended, or the same), starting from a source of at most 16/24/40/300/70000/200000 bytes, with short-destination calls in between. Pinned: every length 0..40 x every compressor x 6 contents; periodic runs of every period 1..20 and length period+4..period+28 between random bytes; a match, 1..14 literals, then L = 4..24 bytes repeated from D = 8..20 back. Non-trivial = the emitted block has " +
	">= 1 match (reference parse); distinct by hash(source, compressor kind, depth). Long-lived objects (pinned regimes): targets compressed exactly 255/256/257/65535/65536/65537 calls after nearly identical inputs; after 2^31, 2^32, 2^32+2^31, 2^33 bytes (minus 64 or 4096) through the same object; single sources of 9 MiB of random bytes."

func TestC01Pinned(t *testing.T) {
	stat.For("C01").SetRule(c01Rule)
	contents := func(n int) []gen.Seg {
		return []gen.Seg{{K: "run", N: n, P: 0}, {K: "run", N: n, P: 'a'}, {K: "rand", N: n, S: 7}, {K: "period", N: n, S: 3, P: 2},
			{K: "period", N: n, S: 5, P: 4}, {K: "text", N: n, S: 9, P: 2}}
	}
	for n := 0; n <= 40; n++ {
		for _, seg := range contents(n) {
			for _, comp := range []string{"fast-obj", "fast-pkg", "hc-obj", "hc-pkg"} {
				for _, d := range []uint32{0, 1, uint32(lz4.Level9)} {
					if comp[:2] != "hc" && d != 0 {
						continue
					}
					st := c01Step{Data: gen.Data{Segs: []gen.Seg{seg}}, Comp: comp, Depth: d}
					// the first step dirties the compressor with an unrelated input
					warm := c01Step{Data: gen.Data{Segs: []gen.Seg{{K: "text", N: 70000, S: 1, P: 4}}}, Comp: comp, Depth: 4}
					pinned(t, "C01", "C01/roundtrip", c01Case{Steps: []c01Step{warm, st}}, runC01)
				}
			}
		}
	}
	// repeats planted exactly at the window edge
	for _, dist := range []int{65534, 65535, 65536, 65537} {
		for _, ml := range []int{4, 5, 8, 18, 19, 300} {
			for _, comp := range []string{"fast-obj", "hc-obj"} {
				d := gen.Data{Segs: []gen.Seg{{K: "rand", N: dist, S: uint64(dist)}, {K: "copy", N: ml, P: dist, S: 1}, {K: "rand", N: 40, S: 2}}}
				pinned(t, "C01", "C01/roundtrip", c01Case{Steps: []c01Step{{Data: d, Comp: comp, Depth: 0}}}, runC01)
			}
		}
	}
	// short periodic runs between random bytes: matches of every small (offset, length) pair - offsets 1..20, lengths 4..28 - where
	// the decoders choose between their wide-copy shortcuts and the overlap-safe paths
	for per := 1; per <= 20; per++ {
		for extra := 4; extra <= 28; extra++ {
			for _, comp := range []string{"fast-obj", "hc-obj"} {
				d := gen.Data{Segs: []gen.Seg{{K: "rand", N: 20, S: uint64(per*100 + extra)}, {K: "period", N: per + extra, S: uint64(per), P: per}, {K: "rand", N: 20, S: uint64(extra)}}}
				pinned(t, "C01", "C01/roundtrip", c01Case{Steps: []c01Step{{Data: d, Comp: comp, Depth: 0}}}, runC01)
			}
		}
	}
	// the same with a short literal run in front of the match (a match, k random bytes, then bytes repeated from D back, L of them,
	// overlapping when L > D): k 1..14, D 8..20, L 4..24
	for k := 1; k <= 14; k += 2 {
		for dist := 8; dist <= 20; dist++ {
			for l := 4; l <= 24; l++ {
				d := gen.Data{Segs: []gen.Seg{{K: "rand", N: 24, S: uint64(dist*1000 + l)}, {K: "copy", N: 8, P: 24, S: 1}, {K: "rand", N: k, S: uint64(k)}, {K: "copy", N: l, P: dist, S: 2}, {K: "rand", N: 20, S: uint64(l)}}}
				pinned(t, "C01", "C01/roundtrip", c01Case{Steps: []c01Step{{Data: d, Comp: []string{"fast-obj", "hc-obj"}[(k/2+dist+l)%2], Depth: 0}}}, runC01)
			}
		}
	}
	// one large, deep case on data whose chains stay short
	big := gen.Data{Segs: []gen.Seg{{K: "rand", N: 1 << 20, S: 11}, {K: "copy", N: 300000, P: 65535, S: 1}, {K: "run", N: 70000, P: 0}, {K: "rand", N: 1<<20 - 370000, S: 12}}}
	for _, comp := range []string{"fast-pkg", "hc-pkg"} {
		pinned(t, "C01", "C01/roundtrip", c01Case{Steps: []c01Step{{Data: big, Comp: comp, Depth: 0}}}, runC01)
	}
}

func TestC01(t *testing.T) {
	rec := stat.For("C01")
	rec.SetRule(c01Rule)
	rec.Require("nontrivial", "history/short-destination-call", "compressor/reused", "block/max-offset>=65000", "block/multi-byte-match-length", "block/multi-byte-literal-length", "src/0..16", "comp/hc-depth0", "comp/hc-depth>=65536")
	checkProp(t, "C01", "C01/roundtrip", pick(1500, 60000), drawC01, runC01)
}
