package props

import (
	"bytes"
	"fmt"
	"os"
	"os/exec"
	"path/filepath"
	"strings"
	"syscall"
	"testing"
	"time"

	lz4 "github.com/pierrec/lz4/v4"
	"pgregory.net/rapid"

	"verifharness/gen"
	"verifharness/inst"
	"verifharness/ref"
	"verifharness/stat"
)

// C20: the lz4c command round-trips files and its flags do what they say.

type c20File struct {
	Data gen.Data `json:"data"`
	Mode uint32   `json:"mode"`
	Name string   `json:"name,omitempty"` // file name (relative path) instead of f<i>.dat
	Size *string  `json:"size,omitempty"` // when set for any file, every file is compressed by its own invocation with its own -size
	Fifo bool     `json:"fifo,omitempty"` // the input is a named pipe (its size as reported by stat is 0) that a writer feeds while the command reads it
}

// c20Fifo: a named pipe with a goroutine that writes data into it once somebody opens it for reading.
type c20Fifo struct {
	path string
	done chan struct{}
}

func feedFifo(path string, mode os.FileMode, data []byte) (*c20Fifo, error) {
	if err := syscall.Mkfifo(path, uint32(mode.Perm())); err != nil {
		return nil, err
	}
	if err := os.Chmod(path, mode.Perm()); err != nil {
		return nil, err
	}
	f := &c20Fifo{path: path, done: make(chan struct{})}
	go func() {
		defer close(f.done)
		w, err := os.OpenFile(path, os.O_WRONLY, 0) // (blocks until the command opens the pipe)
		if err != nil {
			return
		}
		_, _ = w.Write(data)
		_ = w.Close()
	}()
	return f, nil
}

// release waits for the writer; a command that never opened (or never drained) the pipe is not allowed to leave the writer
// blocked: after a grace period the harness drains the pipe itself (this is housekeeping, not a verdict).
func (f *c20Fifo) release() {
	select {
	case <-f.done:
		return
	case <-time.After(2 * time.Second):
	}
	r, err := os.OpenFile(f.path, os.O_RDONLY|syscall.O_NONBLOCK, 0)
	if err != nil {
		return
	}
	defer r.Close()
	buf := make([]byte, 1<<16)
	for {
		select {
		case <-f.done:
			return
		default:
		}
		if n, _ := r.Read(buf); n == 0 {
			time.Sleep(time.Millisecond)
		}
	}
}

type c20Case struct {
	Files     []c20File `json:"files"`
	Size      string    `json:"size"`                // "" (default 4M) | 64K | 256K | 1M | 4M
	BC        bool      `json:"bc"`                  // -bc
	SC        bool      `json:"sc"`                  // -sc
	Level     int       `json:"level"`               // -l n ; -1 = flag absent
	Conc      int       `json:"conc"`                // -c n ; 0 = flag absent
	Stdin     bool      `json:"stdin"`               // stdin/stdout operation (first file only)
	StdinFile bool      `json:"stdinfile,omitempty"` // stdin is a regular file (shell redirection) instead of a pipe
	Rerun     bool      `json:"rerun"`               // compress a longer version of the file first, then the real one (output file exists already)
	Umask     int       `json:"umask,omitempty"`     // the umask the command runs under (the harness itself creates its files with exact modes)
	NoFile    int       `json:"nofile,omitempty"`    // descriptor limit (ulimit -n) the commands run under; 0 = the sandbox's
}

// c20Umask is the umask of the commands of the case being run (cases run one at a time per process).
var c20Umask int

// c20NoFile: the descriptor limit of the commands of the case being run (0: unchanged). The tool works on one file at a time.
var c20NoFile int

var sizeCodes = map[string]int{"": 7, "64K": 4, "256K": 5, "1M": 6, "4M": 7}

func (c c20Case) flags() []string { return c.flagsFor(c.Size) }

func (c c20Case) perFile() bool {
	for _, f := range c.Files {
		if f.Size != nil {
			return true
		}
	}
	return false
}

func (c c20Case) sizeOf(i int) string {
	if c.Files[i].Size != nil {
		return *c.Files[i].Size
	}
	return c.Size
}

func (c c20Case) flagsFor(size string) []string {
	var a []string
	if size != "" {
		a = append(a, "-size", size)
	}
	if c.BC {
		a = append(a, "-bc")
	}
	if c.SC {
		a = append(a, "-sc")
	}
	if c.Level >= 0 {
		a = append(a, "-l", fmt.Sprint(c.Level))
	}
	if c.Conc != 0 {
		a = append(a, "-c", fmt.Sprint(c.Conc))
	}
	return a
}

func shQuote(s string) string { return "'" + strings.ReplaceAll(s, "'", `'\''`) + "'" }

// lz4c runs the binary in dir under the umask of the current case (0 unless the case says otherwise).
func lz4c(dir string, stdin []byte, args ...string) (stdout, stderr []byte, code int, err error) {
	return lz4cIn(dir, stdin, false, args...)
}

// lz4cIn: with asFile the child's stdin is a regular file (like `lz4c compress < file`), otherwise a pipe.
func lz4cIn(dir string, stdin []byte, asFile bool, args ...string) (stdout, stderr []byte, code int, err error) {
	bin := os.Getenv("VERIF_LZ4C")
	if bin == "" {
		return nil, nil, 0, fmt.Errorf("VERIF_LZ4C not set")
	}
	q := []string{shQuote(bin)}
	for _, a := range args {
		q = append(q, shQuote(a))
	}
	limit := ""
	if c20NoFile > 0 {
		limit = fmt.Sprintf("ulimit -n %d; ", c20NoFile)
	}
	cmd := exec.Command("/bin/sh", "-c", limit+fmt.Sprintf("umask %03o; exec ", c20Umask)+strings.Join(q, " "))
	cmd.Dir = dir
	cmd.Stdin = bytes.NewReader(stdin)
	if asFile {
		path := filepath.Join(dir, ".stdin")
		if err := os.WriteFile(path, stdin, 0o600); err != nil {
			return nil, nil, 0, err
		}
		f, err := os.Open(path)
		if err != nil {
			return nil, nil, 0, err
		}
		defer f.Close()
		cmd.Stdin = f
	}
	var so, se bytes.Buffer
	cmd.Stdout, cmd.Stderr = &so, &se
	e := cmd.Run()
	if ee, ok := e.(*exec.ExitError); ok {
		return so.Bytes(), se.Bytes(), ee.ExitCode(), nil
	}
	return so.Bytes(), se.Bytes(), 0, e
}

// expectedFrame: what the library Writer emits for these options (differential for -l).
func expectedFrame(data []byte, bsCode int, bc, csum bool, level int) []byte {
	var sink inst.Sink
	w := lz4.NewWriter(&sink)
	_ = w.Apply(lz4.BlockSizeOption(blockSizes[bsCode]), lz4.BlockChecksumOption(bc), lz4.ChecksumOption(csum), lz4.CompressionLevelOption(lz4.CompressionLevel(levels[level])))
	// the command feeds the Writer with io.Copy, i.e. through ReadFrom (which ends inputs that are empty or a multiple of the
	// block size with an empty stored block): use the same entry point
	_, _ = w.ReadFrom(bytes.NewReader(data))
	_ = w.Close()
	return sink.Buf
}

func runC20(c c20Case, rec *stat.Rec) *stat.Failure {
	base := filepath.Join(envStr("VERIF_BUILD", os.TempDir()), "c20-scratch")
	_ = os.MkdirAll(base, 0o755)
	dir, err := os.MkdirTemp(base, "case-")
	if err != nil {
		return stat.Failf("harness-problem", "%v", err)
	}
	defer os.RemoveAll(dir)
	c20Umask = c.Umask
	defer func() { c20Umask = 0 }()
	if c.Umask != 0 {
		rec.Class(fmt.Sprintf("umask/%03o", c.Umask))
	}
	c20NoFile = c.NoFile
	defer func() { c20NoFile = 0 }()
	if c.NoFile != 0 {
		rec.Class(fmt.Sprintf("many-files/%d-files-under-a-limit-of-%d-descriptors", len(c.Files), c.NoFile))
	}
	rec.Eval()
	bsCode := sizeCodes[c.Size]
	level := c.Level
	if level < 0 {
		level = 0
	}
	wantCSum := !c.SC // usage: "-sc  disable stream checksum"
	flagDesc := strings.Join(c.flags(), " ")
	judgeFrame := func(name string, z, data []byte, bsCode int) *stat.Failure {
		o := wopts{BS: bsCode, BlockSum: c.BC, ContentSum: wantCSum, Conc: 1}
		f := ref.ParseFrame(z, ref.Strict)
		if !f.OK() {
			return stat.Failf("C20/compressed-file-is-not-a-valid-frame/"+firstWords(stripBlockNo(f.Err), 3), "flags [%s], %s (%d bytes): %s at %d", flagDesc, name, len(data), f.Err, f.ErrOff)
		}
		if f.Consumed != len(z) {
			return stat.Failf("C20/bytes-after-the-frame-in-the-compressed-file", "flags [%s], %s: frame ends at %d, file has %d bytes (rerun=%v)", flagDesc, name, f.Consumed, len(z), c.Rerun)
		}
		if !bytes.Equal(f.Content, data) {
			return stat.Failf("C20/compressed-file-content-differs", "flags [%s], %s: %d bytes vs %d, first difference at %d", flagDesc, name, len(f.Content), len(data), firstDiff(f.Content, data))
		}
		if f.BlockSum != o.BlockSum {
			return stat.Failf("C20/flag-bc-has-no-effect", "flags [%s], %s: block checksum flag in the header = %v", flagDesc, name, f.BlockSum)
		}
		if f.ContentSum != o.ContentSum {
			return stat.Failf("C20/flag-sc-polarity", "flags [%s], %s: the usage text says -sc disables the stream checksum; content checksum flag in the header = %v", flagDesc, name, f.ContentSum)
		}
		if f.BSCode != o.BS {
			return stat.Failf("C20/flag-size-has-no-effect", "flags [%s], %s: block-size code %d, want %d", flagDesc, name, f.BSCode, o.BS)
		}
		want := expectedFrame(data, bsCode, c.BC, wantCSum, level)
		if !bytes.Equal(want, z) {
			fast := expectedFrame(data, bsCode, c.BC, wantCSum, 0)
			if bytes.Equal(fast, z) && level > 0 {
				return stat.Failf("C20/flag-l-has-no-effect", "flags [%s], %s (%d bytes): output equals the library's Fast output (%d bytes), Level %d gives %d bytes", flagDesc, name, len(data), len(z), level, len(want))
			}
			return stat.Failf("C20/output-differs-from-library-writer", "flags [%s], %s: %d bytes, library Writer with the same options: %d bytes", flagDesc, name, len(z), len(want))
		}
		if level > 0 && !bytes.Equal(want, expectedFrame(data, bsCode, c.BC, wantCSum, 0)) {
			rec.Class("level/differs-from-fast")
		}
		if level > 1 && !bytes.Equal(want, expectedFrame(data, bsCode, c.BC, wantCSum, level-1)) {
			rec.Class(fmt.Sprintf("level/%d-differs-from-%d", level, level-1))
		}
		return nil
	}
	if c.Stdin {
		data := c.Files[0].Data.Build()
		args := append([]string{"compress"}, c.flags()...)
		so, se, code, err := lz4cIn(dir, data, c.StdinFile, args...)
		if err != nil {
			return stat.Failf("harness-problem", "%v", err)
		}
		if code != 0 {
			return stat.Failf("C20/stdin-compress-exit-status", "flags [%s]: exit %d, stderr %q", flagDesc, code, se)
		}
		if f := judgeFrame("stdin", so, data, bsCode); f != nil {
			return f
		}
		so2, se2, code2, _ := lz4cIn(dir, so, c.StdinFile, "uncompress")
		if code2 != 0 || !bytes.Equal(so2, data) {
			return stat.Failf("C20/stdin-uncompress-does-not-restore", "flags [%s]: exit %d, %d bytes out of %d, stderr %q", flagDesc, code2, len(so2), len(data), se2)
		}
		rec.Class("mode/stdin-stdout")
		if c.StdinFile {
			rec.Class("mode/stdin-is-a-regular-file")
		}
		// what `lz4c compress < f > saved.z` leaves behind, handed to the file mode of uncompress: the name has no .lz4 to strip,
		// so there is no output name to derive; whatever the command does about that, the compressed file must survive it
		// (or the content must have been restored somewhere)
		if len(so) > 0 {
			saved := filepath.Join(dir, "saved.z")
			if err := os.WriteFile(saved, so, 0o644); err != nil {
				return stat.Failf("harness-problem", "%v", err)
			}
			_, _, _, _ = lz4c(dir, nil, "uncompress", "saved.z")
			after, _ := os.ReadFile(saved)
			if !bytes.Equal(after, so) && !bytes.Equal(after, data) {
				return stat.Failf("C20/uncompress-destroys-an-input-without-the-extension", "flags [%s]: `lz4c uncompress saved.z` (the %d bytes that `lz4c compress` wrote to its standard output) left saved.z with %d bytes, neither the compressed file nor the restored content", flagDesc, len(so), len(after))
			}
			rec.Class("mode/uncompress-a-file-without-the-extension")
		}
	} else {
		var names []string
		datas := map[string][]byte{}
		for i, f := range c.Files {
			name := fmt.Sprintf("f%d.dat", i)
			if f.Name != "" {
				name = fmt.Sprintf(f.Name, i)
				if err := os.MkdirAll(filepath.Dir(filepath.Join(dir, name)), 0o777); err != nil {
					return stat.Failf("harness-problem", "%v", err)
				}
				rec.Class("name/unusual-file-name")
				if strings.Contains(name, ".lz4") {
					rec.Class("name/contains-.lz4")
				}
			}
			data := f.Data.Build()
			if c.Rerun {
				// an earlier, longer version of the same file was compressed before
				longer := append(append([]byte{}, data...), bytes.Repeat([]byte("old tail "), 3000)...)
				gen.Fill(longer[len(data):], uint64(i)+99)
				if err := os.WriteFile(filepath.Join(dir, name), longer, os.FileMode(f.Mode)); err != nil {
					return stat.Failf("harness-problem", "%v", err)
				}
				_ = os.Chmod(filepath.Join(dir, name), os.FileMode(f.Mode))
				_, _, _, _ = lz4c(dir, nil, append(append([]string{"compress"}, c.flags()...), name)...)
			}
			if f.Fifo && !c.Rerun {
				ff, err := feedFifo(filepath.Join(dir, name), os.FileMode(f.Mode), data)
				if err != nil {
					return stat.Failf("harness-problem", "%v", err)
				}
				defer ff.release()
				rec.Class("input/named-pipe")
			} else {
				if err := os.WriteFile(filepath.Join(dir, name), data, os.FileMode(f.Mode)); err != nil {
					return stat.Failf("harness-problem", "%v", err)
				}
				_ = os.Chmod(filepath.Join(dir, name), os.FileMode(f.Mode))
			}
			names = append(names, name)
			datas[name] = data
		}
		var so, se []byte
		var code int
		if c.perFile() {
			// one compress invocation per file, each with its own block size; the uncompress below takes them all at once
			for i, name := range names {
				so, se, code, err = lz4c(dir, nil, append(append([]string{"compress"}, c.flagsFor(c.sizeOf(i))...), name)...)
				if err != nil || code != 0 {
					break
				}
			}
			rec.Class("mode/files-with-different-block-sizes")
		} else {
			so, se, code, err = lz4c(dir, nil, append(append([]string{"compress"}, c.flags()...), names...)...)
		}
		if err != nil {
			return stat.Failf("harness-problem", "%v", err)
		}
		if code != 0 {
			return stat.Failf("C20/compress-exit-status", "flags [%s], %d files: exit %d, stdout %q stderr %q", flagDesc, len(names), code, so, se)
		}
		for i, name := range names {
			z, err := os.ReadFile(filepath.Join(dir, name+".lz4"))
			if err != nil {
				which := "first"
				if i > 0 {
					which = "second-or-later"
				}
				return stat.Failf("C20/compressed-file-missing/"+which+"-file", "flags [%s], file %d of %d (%d bytes): %v; the tool printed %q", flagDesc, i+1, len(names), len(datas[name]), err, so)
			}
			if f := judgeFrame(name, z, datas[name], sizeCodes[c.sizeOf(i)]); f != nil {
				return f
			}
			st, _ := os.Stat(filepath.Join(dir, name+".lz4"))
			if st.Mode().Perm() != os.FileMode(c.Files[i].Mode).Perm() {
				return stat.Failf("C20/compressed-file-mode-differs", "flags [%s], %s: mode %o, source has %o", flagDesc, name, st.Mode().Perm(), c.Files[i].Mode)
			}
		}
		// uncompress restores bytes and permission bits
		var znames []string
		for _, name := range names {
			_ = os.Remove(filepath.Join(dir, name))
			znames = append(znames, name+".lz4")
		}
		so, se, code, _ = lz4c(dir, nil, append([]string{"uncompress"}, znames...)...)
		if code != 0 {
			return stat.Failf("C20/uncompress-exit-status", "exit %d, stdout %q stderr %q", code, so, se)
		}
		for i, name := range names {
			got, err := os.ReadFile(filepath.Join(dir, name))
			if err != nil {
				return stat.Failf("C20/uncompressed-file-missing", "file %d of %d: %v; the tool printed %q", i+1, len(names), err, so)
			}
			if !bytes.Equal(got, datas[name]) {
				return stat.Failf("C20/uncompress-does-not-restore-bytes", "flags [%s], %s: %d bytes vs %d, first difference at %d", flagDesc, name, len(got), len(datas[name]), firstDiff(got, datas[name]))
			}
			st, _ := os.Stat(filepath.Join(dir, name))
			if st.Mode().Perm() != os.FileMode(c.Files[i].Mode).Perm() {
				return stat.Failf("C20/uncompress-does-not-restore-mode", "%s: mode %o, want %o", name, st.Mode().Perm(), c.Files[i].Mode)
			}
		}
		rec.Class("mode/files")
		if len(names) > 1 {
			rec.Class("mode/several-files")
		}
		if c.Rerun {
			rec.Class("mode/output-file-existed")
		}
	}
	bs := int(blockSizes[bsCode])
	n0 := c.Files[0].Data.Len()
	rec.Class(sizeClassRel(n0, bs), fmt.Sprintf("flag/size=%s", c.Size))
	if c.BC {
		rec.Class("flag/bc")
	}
	if c.SC {
		rec.Class("flag/sc")
	}
	if c.Level > 0 {
		rec.Class("flag/l>0")
	}
	if n0 > bs || c.BC || c.SC || c.Level > 0 || c.Size != "" {
		rec.NonTrivial(stat.FP(flagDesc, c.Files[0].Data.Build(), len(c.Files), c.Stdin, c.Rerun))
		rec.Class("nontrivial")
	}
	rec.Sample(map[string]interface{}{"flags": flagDesc, "files": len(c.Files), "first file bytes": n0, "stdin": c.Stdin, "rerun": c.Rerun})
	return nil
}

func drawC20(t *rapid.T) c20Case {
	var c c20Case
	c.Size = rapid.SampledFrom([]string{"", "64K", "64K", "64K", "256K", "1M", "4M"}).Draw(t, "size")
	c.BC = rapid.Bool().Draw(t, "bc")
	c.SC = rapid.Bool().Draw(t, "sc")
	c.Level = rapid.SampledFrom([]int{-1, -1, 0, 1, 2, 3, 4, 5, 6, 7, 8, 9}).Draw(t, "level")
	c.Conc = rapid.SampledFrom([]int{0, 0, 1, 2}).Draw(t, "conc")
	c.Stdin = rapid.IntRange(0, 4).Draw(t, "stdin") == 0
	c.StdinFile = c.Stdin && rapid.Bool().Draw(t, "stdinfile")
	c.Rerun = !c.Stdin && rapid.IntRange(0, 5).Draw(t, "rerun") == 0
	bs := int(blockSizes[sizeCodes[c.Size]])
	nf := 1
	if !c.Stdin {
		nf = rapid.SampledFrom([]int{1, 1, 2, 3}).Draw(t, "nfiles")
	}
	for i := 0; i < nf; i++ {
		maxLen := pick(700<<10, 9<<20)
		if c.Level > 0 {
			maxLen = pick(200<<10, 1<<20)
		}
		n := sizeAround(t, bs, maxLen)
		mode := uint32(0o600) | uint32(rapid.IntRange(0, 0o77).Draw(t, "modebits"))
		if rapid.Bool().Draw(t, "plainmode") {
			mode = rapid.SampledFrom([]uint32{0o600, 0o644, 0o640, 0o755, 0o666}).Draw(t, "mode")
		}
		d := drawFrameData(t, n)
		if c.Level > 0 && rapid.IntRange(0, 2).Draw(t, "deepchain") == 0 {
			// run-heavy data with look-alike contexts far apart: the search depth (the level) decides which match is found
			ctx := rapid.Uint64().Draw(t, "ctxseed")
			var segs []gen.Seg
			for k := rapid.IntRange(2, 5).Draw(t, "nctx"); k > 0; k-- {
				segs = append(segs, gen.Seg{K: "text", N: rapid.IntRange(40, 400).Draw(t, "ctxn"), S: ctx + uint64(k%2), P: 3},
					gen.Seg{K: "run", N: rapid.SampledFrom([]int{300, 5000, 33000, 40000, 60000}).Draw(t, "runn"), P: rapid.SampledFrom([]int{0, 'a'}).Draw(t, "runb")},
					gen.Seg{K: "text", N: rapid.IntRange(8, 60).Draw(t, "ctxn2"), S: ctx, P: 3})
			}
			d = gen.Data{Segs: segs}
		}
		f := c20File{Data: d, Mode: mode}
		// a named pipe given by name: stat says 0 bytes, reading yields the data (needs read and write permission for the harness's writer)
		if !c.Rerun && mode&0o600 == 0o600 && rapid.IntRange(0, 11).Draw(t, "fifo?") == 0 {
			f.Fifo = true
		}
		if rapid.IntRange(0, 3).Draw(t, "name?") == 0 {
			// names the command has to derive the other name from: an .lz4 file compressed again, ".lz4" inside the name or in a
			// directory component, several dots, no extension, spaces, a hidden file
			f.Name = rapid.SampledFrom([]string{"x%d.lz4", "archive%d.lz4.bak", "store.lz4.d/data%d", "a.b.c%d.tar", "noext%d", "with space %d.txt", ".hidden%d", "dir%d/sub/file.bin", "%d.lz4.lz4"}).Draw(t, "name")
		}
		c.Files = append(c.Files, f)
	}
	c.Umask = rapid.SampledFrom([]int{0, 0, 0o022, 0o027, 0o077}).Draw(t, "umask")
	if nf > 1 && !c.Rerun && rapid.IntRange(0, 2).Draw(t, "mixedsizes") == 0 {
		for i := range c.Files {
			sz := rapid.SampledFrom([]string{"64K", "256K", "1M", "4M"}).Draw(t, "filesize")
			c.Files[i].Size = &sz
		}
	}
	return c
}

func init() { register("C20", "C20/cli", runC20) }

const c20Rule = "the lz4c binary built from the working tree (alternate go.mod with replace => /repo), run under umask 0, 022, 027 or 077 in a scratch directory: 1..3 files per invocation or stdin/stdout; file sizes from " +
	"{0,1,bs-1,bs,bs+1,2bs,2bs+1,3bs-1,random} for the chosen -size, random / zero / text / grammar contents, permission bits 0600 | drawn; flag sets over -size {default,64K,256K,1M,4M} x -bc x -sc " +
	"x -l {absent,0,1,2,5,9} x -c {absent,1,2}; optionally the output file already exists from an earlier, longer version of the input. Oracle: exit status 0 and every expected output present; " +
	"x.lz4 is exactly one strictly valid frame (independent parser) whose content is the file; the header shows what the usage text says (-bc => block checksums, -sc => no content checksum, default " +
	"=> content checksum, -size => block-size code); -l n => bytes equal to the library Writer at Level n (differential); same permission bits; uncompress restores bytes and permission bits. " +
	"Inputs are regular files or (1 in 12, and pinned sizes 0, 1, bs, bs+1, 200000, 3bs) named pipes fed by a writer while the command reads them (stat reports 0 bytes). Pinned: one invocation over 52 / 84 small files under a limit of 32 / 64 descriptors (ulimit -n; the tool works on one file at a time). File names: f<i>.dat or (1 in 4) one of {x.lz4, archive.lz4.bak, store.lz4.d/data, a.b.c.tar, noext, 'with space.txt', .hidden, dir/sub/file.bin, n.lz4.lz4}. " +
	"Non-trivial = file larger than one block or a non-default flag; distinct by (flags, size, content)."

// TestC20ManyFiles: one invocation over more files than the process may hold descriptors (the tool handles one file at a time).
func TestC20ManyFiles(t *testing.T) {
	rec := stat.For("C20")
	rec.SetRule(c20Rule)
	if shard != 0 {
		return
	}
	for _, lim := range []int{32, 64} {
		c := c20Case{Size: "64K", Level: -1, NoFile: lim, BC: lim == 64}
		for i := 0; i < lim+20; i++ {
			c.Files = append(c.Files, c20File{Data: gen.Data{Segs: []gen.Seg{{K: "text", N: 50 + 37*i, S: uint64(i), P: 3}}}, Mode: 0o644})
		}
		pinned(t, "C20", "C20/cli", c, runC20)
	}
}

// TestC20Fifo: inputs whose size the file system does not know in advance (named pipes given by name).
func TestC20Fifo(t *testing.T) {
	rec := stat.For("C20")
	rec.SetRule(c20Rule)
	if shard != nshards-1 {
		return
	}
	for i, n := range []int{0, 1, 65536, 65537, 200000, 3 * 65536} {
		c := c20Case{Size: "64K", Level: -1, BC: i%2 == 0, Files: []c20File{
			{Data: gen.Data{Segs: []gen.Seg{{K: "text", N: n, S: uint64(i), P: 3}}}, Mode: 0o640, Fifo: true},
			{Data: gen.Data{Segs: []gen.Seg{{K: "text", N: 1000, S: 77, P: 3}}}, Mode: 0o600}}}
		pinned(t, "C20", "C20/cli", c, runC20)
	}
}

func TestC20(t *testing.T) {
	rec := stat.For("C20")
	rec.SetRule(c20Rule)
	rec.Require("nontrivial", "umask/022", "umask/077", "name/contains-.lz4", "mode/stdin-is-a-regular-file", "mode/files-with-different-block-sizes", "mode/stdin-stdout", "mode/several-files", "mode/output-file-existed", "flag/bc", "flag/sc", "flag/l>0", "level/differs-from-fast", "level/8-differs-from-7", "level/6-differs-from-5", "level/3-differs-from-2", "input/empty", "input/bs", "input/k*bs")
	checkProp(t, "C20", "C20/cli", pick(4000, 60000), drawC20, runC20)
}
