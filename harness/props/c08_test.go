package props

import (
	"bytes"
	"errors"
	"fmt"
	"io"
	"sync/atomic"
	"testing"
	"time"

	lz4 "github.com/pierrec/lz4/v4"
	"pgregory.net/rapid"

	"verifharness/gen"
	"verifharness/inst"
	"verifharness/ref"
	"verifharness/stat"
)

// C08: the concurrent pipelines are race-free, ordered, deadlock-free and leak-free.

type c08WCase struct {
	Opts   mOpts `json:"opts"` // Conc >= 2
	Ops    []wOp `json:"ops"`  // legal histories: write/readfrom/flush/close/reset
	FailAt int   `json:"failat,omitempty"`
	Sticky bool  `json:"sticky,omitempty"`
	Sched  []int `json:"sched,omitempty"`
}

type c08Run struct {
	cur     int
	curDesc string
	fail    *stat.Failure
	classes []string
	blocks  int
}

func (r *c08Run) writer(c c08WCase) {
	class := func(s string) { r.classes = append(r.classes, s) }
	// the handler is called from the worker goroutines: it must be safe for concurrent use (cmd/lz4c uses atomics too)
	var calls, bytesSeen atomic.Int64
	handler := func(n int) {
		lz4YieldFromSink() // (a slow callback: the schedule's delay for site 20 applies before the call is counted)
		calls.Add(1)
		bytesSeen.Add(int64(n))
	}
	// once Close has returned nothing of the pipeline may be left: no callback may arrive later (virtual time passes in between)
	quietAfterClose := func(where string) bool {
		if n, g := inst.Stragglers("github.com/pierrec/lz4/v4"); n > 0 {
			r.fail = stat.Failf("C08/writer/goroutines-remain-when-close-has-returned", "%s: %d goroutine(s) started by the library still exist after Close returned, e.g.\n%s", where, n, g)
			return false
		}
		snap := calls.Load()
		time.Sleep(time.Second)
		if late := calls.Load() - snap; late != 0 {
			r.fail = stat.Failf("C08/writer/on-block-done-callback-after-close-returned", "%s: %d callback(s) arrived after Close had returned: goroutines of the pipeline were still running", where, late)
			return false
		}
		return true
	}
	mkSink := func() *inst.Sink {
		return &inst.Sink{Cap: 256 << 20, FailAt: c.FailAt, Sticky: c.Sticky, Hook: func() { lz4YieldFromSink() }}
	}
	sink := mkSink()
	w := lz4.NewWriter(sink)
	if err := w.Apply(append(c.Opts.all(), lz4.OnBlockDoneOption(handler))...); err != nil {
		r.fail = stat.Failf("C08/writer/apply-fails", "%v", err)
		return
	}
	var accepted []byte
	var epoch []wOp
	open := false
	failed := false
	srcFailed := false
	for i, op := range c.Ops {
		r.cur, r.curDesc = i, op.Op
		where := fmt.Sprintf("op %d %s (options %s, sink fails at call %d)", i, op, c.Opts, c.FailAt)
		if srcFailed && op.Op != "close" && op.Op != "reset" {
			continue // after a failed ReadFrom only Close and Reset are meaningful
		}
		switch op.Op {
		case "write":
			data := opData(op.N, op.Seed)
			n, err := writeScribbled(w, data)
			if err != nil || n != len(data) {
				if c.FailAt > 0 {
					failed = true
					break
				}
				r.fail = stat.Failf("C08/writer/write-fails/"+errClass(err), "%s: (%d, %v)", where, n, err)
				return
			}
			accepted = append(accepted, data...)
			epoch = append(epoch, op)
			open = true
		case "readfrom":
			data := opData(op.N, op.Seed)
			if op.Fail > 0 {
				// the source fails part-way: blocks are in flight when ReadFrom gives up; from here on only Close / Reset follow
				fsrc := &inst.Source{Data: data, FailAt: op.Fail, Chunks: []int{65536}}
				_, err := w.ReadFrom(fsrc)
				class("error-path/readfrom-source-failure")
				if fsrc.Failed == 0 && c.FailAt > 0 && err != nil {
					// the sink failed first (header or an earlier block): the source was not read that far
					failed, srcFailed, open = true, true, true
					break
				}
				if fsrc.Failed == 0 {
					r.fail = stat.Failf("harness-problem", "%s: the source was never asked for its failing call %d", where, op.Fail)
					return
				}
				if err == nil {
					r.fail = stat.Failf("C08/writer/readfrom-hides-source-failure", "%s: (nil)", where)
					return
				}
				failed = true
				srcFailed = true
				open = true
				break
			}
			n, err := w.ReadFrom(bytes.NewReader(data))
			if err != nil || n != int64(len(data)) {
				if c.FailAt > 0 {
					failed = true
					break
				}
				r.fail = stat.Failf("C08/writer/readfrom-fails/"+errClass(err), "%s: (%d, %v)", where, n, err)
				return
			}
			accepted = append(accepted, data...)
			epoch = append(epoch, op)
			open = true
		case "flush":
			if err := w.Flush(); err != nil {
				if c.FailAt > 0 {
					failed = true
					break
				}
				r.fail = stat.Failf("C08/writer/flush-fails/"+errClass(err), "%s: %v", where, err)
				return
			}
			epoch = append(epoch, op)
			open = true
			class("op/flush-mid-stream")
		case "close":
			err := w.Close()
			if !quietAfterClose(where) {
				return
			}
			if srcFailed {
				// (the Writer is in its error state: Close reports it; nothing about the output is judged)
				open = false
				break
			}
			if c.FailAt > 0 && len(sink.FailedAt) > 0 {
				class("error-path/sink-failure")
				if err == nil && !failed {
					r.fail = stat.Failf("C08/writer/sink-failure-not-reported-by-close", "%s: the sink failed at call(s) %v, no call reported it", where, sink.FailedAt)
					return
				}
			} else if err != nil {
				r.fail = stat.Failf("C08/writer/close-fails/"+errClass(err), "%s: %v", where, err)
				return
			} else {
				// order and integrity: byte-identical to what a sequential Writer emits for the same calls
				so := c.Opts
				so.Conc = 1
				want, serr := replayEpoch(so, epoch)
				if serr != nil {
					r.fail = stat.Failf("C08/writer/sequential-writer-cannot-replay", "%s: %v", where, serr)
					return
				}
				if !bytes.Equal(want, sink.Buf) {
					f := ref.ParseFrame(sink.Buf, ref.Walk)
					r.fail = stat.Failf("C08/writer/output-differs-from-sequential-writer", "%s: %d bytes vs %d sequential, first difference at %d; reference parse of the concurrent output: ok=%v %s, content equal to the input: %v",
						where, len(sink.Buf), len(want), firstDiff(want, sink.Buf), f.OK(), f.Err, bytes.Equal(f.Content, accepted))
					return
				}
				r.blocks += len(ref.ParseFrame(sink.Buf, ref.Walk).Blocks)
				class("epoch/equal-to-sequential")
			}
			open = false
		case "reset":
			if !open {
				class("op/reset-after-close")
			} else {
				class("op/reset-without-close")
			}
			sink = mkSink()
			w.Reset(sink)
			accepted, epoch, open, failed, srcFailed = nil, nil, false, false, false
		}
	}
	r.cur, r.curDesc = len(c.Ops), "epilogue-close"
	_ = w.Close()
	if !quietAfterClose("epilogue Close") {
		return
	}
	if calls.Load() == 0 && r.blocks > 0 {
		r.fail = stat.Failf("C08/writer/on-block-done-never-called", "%d blocks written, handler calls %d", r.blocks, calls.Load())
	}
}

// lz4YieldFromSink lets the schedule also perturb the harness callbacks (site 20).
func lz4YieldFromSink() {
	if f := yieldHook.Load(); f != nil {
		(*f)(20)
	}
}

func runC08W(c c08WCase, rec *stat.Rec) *stat.Failure {
	if !inst.BubbleSupported {
		return stat.Failf("harness-problem", "C08 must be built with Go >= 1.25 (testing/synctest)")
	}
	rec.Eval()
	r := &c08Run{}
	restore := setSchedule(c.Sched)
	poisonOn.Store(true)
	verdict, detail := inst.RunBubble(bubbleT, func() { r.writer(c) })
	poisonOn.Store(false)
	restore()
	if r.fail != nil {
		return r.fail
	}
	switch verdict {
	case "deadlock":
		return stat.Failf("C08/writer/call-never-returns/"+r.curDesc, "op %d of %v (options %s): %s", r.cur, c.Ops, c.Opts, detail)
	case "leak":
		return stat.Failf("C08/writer/goroutines-remain-after-close", "history %v (options %s, sink fails at %d): %s", c.Ops, c.Opts, c.FailAt, detail)
	case "panic":
		return stat.Failf("C08/writer/panic/"+r.curDesc, "op %d of %v: %s", r.cur, c.Ops, detail)
	}
	for _, cl := range r.classes {
		rec.Class("writer/" + cl)
	}
	rec.Class(fmt.Sprintf("writer/conc=%d", c.Opts.Conc))
	delayed := false
	for _, d := range c.Sched {
		if d > 0 {
			delayed = true
		}
	}
	if r.blocks >= 3 && delayed {
		rec.NonTrivial(stat.FP("w", fmt.Sprint(c.Ops), c.Opts.String(), fmt.Sprint(c.Sched), c.FailAt))
		rec.Class("writer/nontrivial")
	}
	rec.Sample(map[string]interface{}{"object": "Writer", "options": c.Opts.String(), "history": fmt.Sprint(c.Ops), "schedule": c.Sched, "sink fails at": c.FailAt, "blocks": r.blocks})
	return nil
}

func drawC08W(t *rapid.T) c08WCase {
	var c c08WCase
	c.Opts = defaultMOpts()
	c.Opts.BS = 4
	c.Opts.Conc = rapid.SampledFrom([]int{2, 2, 3, 4, 16}).Draw(t, "conc")
	c.Opts.BlockSum = rapid.Bool().Draw(t, "bsum")
	c.Opts.ContentSum = rapid.Bool().Draw(t, "csum")
	if rapid.IntRange(0, 5).Draw(t, "hc?") == 0 {
		c.Opts.Level = uint32(lz4.Level1)
	}
	if rapid.IntRange(0, 9).Draw(t, "legacy?") == 0 {
		c.Opts.Legacy = true
	}
	n := rapid.IntRange(1, 14).Draw(t, "nops")
	open := false
	for i := 0; i < n; i++ {
		var op wOp
		k := rapid.IntRange(0, 19).Draw(t, "op")
		switch {
		case k <= 9:
			op.Op = "write"
			op.N = rapid.SampledFrom([]int{1, 100, 65536, 65537, 131072, 200000, 400000, 786432}).Draw(t, "n")
			op.Seed = rapid.Uint64Range(0, 1000).Draw(t, "seed")
			open = true
		case (k == 10 || k == 11) && !open:
			op.Op = "readfrom"
			op.N = rapid.SampledFrom([]int{0, 100, 65536, 200000, 400000}).Draw(t, "n")
			op.Seed = rapid.Uint64Range(0, 1000).Draw(t, "seed")
			if rapid.IntRange(0, 2).Draw(t, "srcfail?") == 0 {
				op.N = rapid.SampledFrom([]int{200000, 400000, 786432}).Draw(t, "nfail")
				op.Fail = rapid.IntRange(2, 3).Draw(t, "srcfail") // (the input takes at least 4 Read calls of <= 64 KiB)
			}
			open = true
		case k <= 13:
			op.Op = "flush"
			open = true
		case k <= 16:
			op.Op = "close"
			c.Ops = append(c.Ops, op)
			op = wOp{Op: "reset"}
			open = false
		default:
			op.Op = "reset"
			open = false
		}
		c.Ops = append(c.Ops, op)
	}
	if rapid.IntRange(0, 5).Draw(t, "fail?") == 0 {
		c.FailAt = rapid.IntRange(1, 30).Draw(t, "failat")
		c.Sticky = rapid.Bool().Draw(t, "sticky")
	}
	c.Sched = rapid.SliceOfN(rapid.SampledFrom([]int{0, 0, 0, 1, 2, 5, 50, 500}), 1, 23).Draw(t, "sched")
	return c
}

// ---------------------------------------------------------------- Reader

type c08RCase struct {
	Frame    rFrame `json:"frame"`
	Conc     int    `json:"conc"`
	WriteTo  bool   `json:"writeto"`
	Sizes    []int  `json:"sizes,omitempty"`
	SrcFail  int    `json:"srcfail,omitempty"`  // the k-th source Read fails
	SinkFail int    `json:"sinkfail,omitempty"` // WriteTo: the k-th sink Write fails
	Sched    []int  `json:"sched,omitempty"`
}

func (r *c08Run) reader(c c08RCase) {
	z := c.Frame.build()
	fr := ref.ParseFrame(z, ref.Lenient)
	valid := fr.OK() && fr.OutOfDom == "" && fr.Unspec == ""
	src := &inst.Source{Data: z, FailAt: c.SrcFail, Hook: lz4YieldFromSink}
	rd := lz4.NewReader(src)
	var handledA atomic.Int64
	if err := rd.Apply(lz4.ConcurrencyOption(c.Conc), lz4.OnBlockDoneOption(func(n int) { handledA.Add(int64(n)) })); err != nil {
		r.fail = stat.Failf("C08/reader/apply-fails", "%v", err)
		return
	}
	var out []byte
	var err error
	r.curDesc = "read"
	if c.WriteTo {
		r.curDesc = "writeto"
		sink := &inst.Sink{FailAt: c.SinkFail, Hook: lz4YieldFromSink}
		_, err = rd.WriteTo(sink)
		out = sink.Buf
	} else {
		buf := make([]byte, 1<<20)
		for i := 0; i < 1<<22; i++ {
			sz := 4096
			if len(c.Sizes) > 0 {
				sz = c.Sizes[i%len(c.Sizes)]
			}
			var n int
			n, err = rd.Read(buf[:sz])
			out = append(out, buf[:n]...)
			if err != nil {
				break
			}
		}
		if err == io.EOF {
			err = nil
		}
	}
	// the Reader has reached the end of the stream or reported an error: no goroutine it started may remain (a failing
	// WriteTo destination is not among the listed endings and is left to the final leak verdict)
	if c.SinkFail == 0 {
		if n, g := inst.Stragglers("github.com/pierrec/lz4/v4"); n > 0 {
			r.fail = stat.Failf("C08/reader/goroutines-remain-when-the-reader-has-finished", "frame %s, concurrency %d, writeto=%v: the Reader returned %v after %d bytes and %d goroutine(s) started by the library still exist, e.g.\n%s", c.Frame.Kind, c.Conc, c.WriteTo, err, len(out), n, g)
			return
		}
	}
	r.blocks = len(fr.Blocks)
	injected := c.SrcFail > 0 && src.Failed > 0 || c.SinkFail > 0
	switch {
	case injected:
		r.classes = append(r.classes, "error-path/injected-io-failure")
		if c.SrcFail > 0 && src.Failed > 0 && (err == nil || !errors.Is(err, inst.ErrInjected)) && valid {
			r.fail = stat.Failf("C08/reader/source-failure-not-reported", "frame %s, concurrency %d: source failed at call %d, reader returned %v after %d bytes", c.Frame.Kind, c.Conc, c.SrcFail, err, len(out))
		}
	case valid:
		if err != nil {
			r.fail = stat.Failf("C08/reader/valid-frame-rejected/"+errClass(err), "frame %s (%d bytes, %d blocks), concurrency %d: %v after %d bytes", c.Frame.Kind, len(z), len(fr.Blocks), c.Conc, err, len(out))
		} else if !bytes.Equal(out, fr.Content) {
			r.fail = stat.Failf("C08/reader/output-differs(order-or-buffer-reuse)", "frame %s (%d blocks), concurrency %d, writeto=%v sizes=%v: %d bytes out, %d expected, first difference at %d", c.Frame.Kind, len(fr.Blocks), c.Conc, c.WriteTo, c.Sizes, len(out), len(fr.Content), firstDiff(out, fr.Content))
		} else if handled := int(handledA.Load()); handled != len(out) {
			r.fail = stat.Failf("C08/reader/on-block-done-counts-do-not-add-up", "handler saw %d bytes, %d delivered", handled, len(out))
		}
		r.classes = append(r.classes, "stream/valid-read-to-the-end")
	default:
		r.classes = append(r.classes, "error-path/corrupt-frame")
		if err == nil {
			r.classes = append(r.classes, "error-path/corrupt-frame-accepted(not-judged-here)")
		}
	}
}

func runC08R(c c08RCase, rec *stat.Rec) *stat.Failure {
	if !inst.BubbleSupported {
		return stat.Failf("harness-problem", "C08 must be built with Go >= 1.25 (testing/synctest)")
	}
	rec.Eval()
	r := &c08Run{}
	restore := setSchedule(c.Sched)
	poisonOn.Store(true)
	verdict, detail := inst.RunBubble(bubbleT, func() { r.reader(c) })
	poisonOn.Store(false)
	restore()
	if r.fail != nil {
		return r.fail
	}
	desc := fmt.Sprintf("frame %s, concurrency %d, writeto=%v sizes=%v srcfail=%d sinkfail=%d", c.Frame.Kind, c.Conc, c.WriteTo, c.Sizes, c.SrcFail, c.SinkFail)
	switch verdict {
	case "deadlock":
		return stat.Failf("C08/reader/call-never-returns/"+r.curDesc, "%s: %s", desc, detail)
	case "leak":
		kind := "after-end-of-stream"
		for _, cl := range r.classes {
			if cl == "error-path/corrupt-frame" {
				kind = "after-decoding-error"
			}
			if cl == "error-path/injected-io-failure" {
				kind = "after-io-error"
				if c.SinkFail > 0 {
					kind = "after-sink-error-in-writeto"
				}
			}
		}
		if kind == "after-sink-error-in-writeto" {
			// the statement covers the end of the stream and source / decoding errors; a failing destination of
			// WriteTo ends the call mid-stream, which is the abandoned-stream situation: counted, not judged
			rec.Class("reader/abandoned/sink-error-in-writeto(leak-not-judged)")
			break
		}
		return stat.Failf("C08/reader/goroutines-remain/"+kind, "%s: %s", desc, detail)
	case "panic":
		return stat.Failf("C08/reader/panic/"+r.curDesc, "%s: %s", desc, detail)
	}
	for _, cl := range r.classes {
		rec.Class("reader/" + cl)
	}
	rec.Class(fmt.Sprintf("reader/conc=%d", c.Conc))
	delayed := false
	for _, d := range c.Sched {
		if d > 0 {
			delayed = true
		}
	}
	if r.blocks >= 3 && delayed {
		rec.NonTrivial(stat.FP("r", fmt.Sprint(c.Frame), c.Conc, c.WriteTo, fmt.Sprint(c.Sizes), fmt.Sprint(c.Sched), c.SrcFail, c.SinkFail))
		rec.Class("reader/nontrivial")
	}
	rec.Sample(map[string]interface{}{"object": "Reader", "frame": frameKinds([]rFrame{c.Frame}), "concurrency": c.Conc, "writeto": c.WriteTo, "sizes": c.Sizes, "schedule": c.Sched, "source fails at": c.SrcFail, "blocks": r.blocks})
	return nil
}

func drawC08R(t *rapid.T) c08RCase {
	var c c08RCase
	c.Conc = rapid.SampledFrom([]int{2, 2, 3, 4, 16}).Draw(t, "conc")
	switch rapid.IntRange(0, 9).Draw(t, "fkind") {
	case 0, 1, 2, 3, 4, 5:
		c.Frame = rFrame{Kind: "writer", Opts: wopts{BS: 4, BlockSum: rapid.Bool().Draw(t, "bsum"), ContentSum: rapid.Bool().Draw(t, "csum"), Conc: 1},
			N: rapid.SampledFrom([]int{0, 100, 65536, 200000, 400000, 786432}).Draw(t, "n"), Seed: rapid.Uint64Range(1, 50).Draw(t, "seed")}
	case 6:
		spec := genIndepSpec(t)
		c.Frame = rFrame{Kind: "enc", Spec: spec}
	case 7:
		// empty stored blocks early in the frame, a corrupted byte later: the consumer meets an empty block while a
		// later block has already failed (or is about to fail) in a worker
		spec := genIndepSpec(t)
		spec.BlockSum = true
		k := rapid.IntRange(1, 3).Draw(t, "nempty")
		for i := 0; i < k; i++ {
			at := rapid.IntRange(0, len(spec.Blocks)).Draw(t, "emptyat")
			blocks := append([]gen.BlockSpec(nil), spec.Blocks[:at]...)
			blocks = append(blocks, gen.BlockSpec{Raw: true, RawN: 0})
			spec.Blocks = append(blocks, spec.Blocks[at:]...)
		}
		for i := 0; i < 4; i++ {
			spec.Blocks = append(spec.Blocks, gen.BlockSpec{Raw: true, RawN: rapid.SampledFrom([]int{10, 3000, 60000}).Draw(t, "tailraw"), RawSeed: uint64(i)})
		}
		z, _ := spec.Build()
		c.Frame = rFrame{Kind: "enc", Spec: spec, Mut: &mutation{Op: "xor", Off: rapid.IntRange(len(z)/2, len(z)-1).Draw(t, "mutoff"), Val: 0x20}}
	default:
		c.Frame = rFrame{Kind: "mutated", Opts: wopts{BS: 4, BlockSum: rapid.Bool().Draw(t, "bsum"), ContentSum: true, Conc: 1},
			N: rapid.SampledFrom([]int{200000, 400000, 786432}).Draw(t, "n"), Seed: rapid.Uint64Range(1, 50).Draw(t, "seed"),
			Mut: &mutation{Op: "xor", Off: rapid.IntRange(7, 3000).Draw(t, "mutoff"), Val: byte(1 << uint(rapid.IntRange(0, 7).Draw(t, "bit")))}}
	}
	c.WriteTo = rapid.IntRange(0, 2).Draw(t, "writeto?") == 0
	if !c.WriteTo {
		c.Sizes = rapid.SliceOfN(rapid.SampledFrom([]int{1, 7, 4095, 65535, 65536, 65537, 1 << 20}), 1, 3).Draw(t, "sizes")
	}
	switch rapid.IntRange(0, 9).Draw(t, "fail?") {
	case 0:
		c.SrcFail = rapid.IntRange(1, 40).Draw(t, "srcfail")
	case 1:
		if c.WriteTo {
			c.SinkFail = rapid.IntRange(1, 6).Draw(t, "sinkfail")
		}
	}
	c.Sched = rapid.SliceOfN(rapid.SampledFrom([]int{0, 0, 0, 1, 2, 5, 50, 500}), 1, 23).Draw(t, "sched")
	return c
}

func init() {
	register("C08", "C08/writer", runC08W)
	register("C08", "C08/reader", runC08R)
}

const c08Rule = "legal call histories on concurrent Writers (concurrency 2,3,4,16; Write of 1 byte .. 12 blocks, ReadFrom, Flush mid-stream, Close, Reset, reuse after Close; OnBlockDone installed; " +
	"sinks failing at call k) and concurrent Readers (Read size sequences or WriteTo over valid multi-block frames, frames with empty stored blocks, frames with a corrupted byte, sources failing at " +
	"call k, sinks failing in WriteTo), each executed inside a testing/synctest bubble with drawn virtual-time delays at the 17 library hook sites and in the harness callbacks, with every buffer " +
	"returned to the shared pools overwritten by a per-release pattern. The same campaign runs plain (GOMAXPROCS 16, 2 and 1) and under the race detector (halt_on_error). Oracle: bubble verdict ok " +
	"(every call returns; after Close / end of stream / a reported error no goroutine started by the library is still blocked), no race report, the sink bytes of every closed epoch equal the " +
	"sequential Writer's bytes for the same calls, decoded bytes equal the content, OnBlockDone counts add up. Non-trivial = >= 3 blocks in flight with concurrency >= 2 and at least one non-zero " +
	"delay; distinct by hash(history, schedule)."

// TestC08Pinned: configurations the random campaign reaches too rarely (multi-megabyte blocks).
func TestC08Pinned(t *testing.T) {
	bubbleT = t
	rec := stat.For("C08")
	rec.SetRule(c08Rule)
	if shard != 0 {
		return
	}
	leg := defaultMOpts()
	leg.BS, leg.Legacy = 4, true
	big := defaultMOpts()
	big.BS, big.BlockSum = 7, true
	for _, conc := range []int{2, 4} {
		for _, o := range []mOpts{leg, big} {
			o.Conc = conc
			// seeds divisible by 3 give incompressible data (see opData)
			c := c08WCase{Opts: o, Ops: []wOp{{Op: "write", N: 17<<20 + 100, Seed: 3}, {Op: "close"}, {Op: "reset"}, {Op: "write", N: 9 << 20, Seed: 6}, {Op: "flush"}, {Op: "write", N: 8360000, Seed: 9}, {Op: "close"}},
				Sched: []int{0, 50, 0, 500, 5}}
			pinned(t, "C08", "C08/writer", c, runC08W)
			rec.Class("writer/pinned-multi-megabyte-blocks")
		}
	}
}

func TestC08(t *testing.T) {
	bubbleT = t
	rec := stat.For("C08")
	rec.SetRule(c08Rule)
	rec.Require("writer/nontrivial", "writer/error-path/readfrom-source-failure", "reader/nontrivial", "writer/op/flush-mid-stream", "writer/op/reset-after-close", "writer/epoch/equal-to-sequential", "writer/error-path/sink-failure", "reader/error-path/corrupt-frame", "reader/error-path/injected-io-failure", "reader/stream/valid-read-to-the-end")
	scale := envInt("VERIF_C08_SCALE", 100)
	checkProp(t, "C08", "C08/writer", pick(1200, 30000)*scale/100, drawC08W, runC08W)
	checkProp(t, "C08", "C08/reader", pick(1500, 40000)*scale/100, drawC08R, runC08R)
}
