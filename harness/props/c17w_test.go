package props

import (
	"bytes"
	"errors"
	"fmt"
	"io"
	"testing"
	"time"

	lz4 "github.com/pierrec/lz4/v4"
	"pgregory.net/rapid"

	"verifharness/gen"
	"verifharness/inst"
	"verifharness/ref"
	"verifharness/stat"
)

// C17 (Writer half): every call sequence against a reference model of the life cycle.

type optDelta struct {
	BS         *int    `json:"bs,omitempty"`
	BlockSum   *bool   `json:"bsum,omitempty"`
	ContentSum *bool   `json:"csum,omitempty"`
	Size       *uint64 `json:"size,omitempty"`
	Level      *uint32 `json:"level,omitempty"`
	Conc       *int    `json:"conc,omitempty"`
	Legacy     *bool   `json:"legacy,omitempty"`
	BSRaw      *uint32 `json:"bsraw,omitempty"`    // BlockSizeOption with this value, which is none of the four defined sizes
	LevelRaw   *uint32 `json:"levelraw,omitempty"` // CompressionLevelOption with this value, which is none of the ten defined levels
}

func (d optDelta) String() string {
	s := ""
	add := func(k string, v interface{}) { s += fmt.Sprintf("%s=%v ", k, v) }
	if d.BS != nil {
		add("bs", *d.BS)
	}
	if d.BlockSum != nil {
		add("bsum", *d.BlockSum)
	}
	if d.ContentSum != nil {
		add("csum", *d.ContentSum)
	}
	if d.Size != nil {
		add("size", *d.Size)
	}
	if d.Level != nil {
		add("level", *d.Level)
	}
	if d.Conc != nil {
		add("conc", *d.Conc)
	}
	if d.Legacy != nil {
		add("legacy", *d.Legacy)
	}
	if d.BSRaw != nil {
		add("undefined-block-size", *d.BSRaw)
	}
	if d.LevelRaw != nil {
		add("undefined-level", *d.LevelRaw)
	}
	return "{" + s + "}"
}

type wOp struct {
	Op   string    `json:"op"` // apply write readfrom flush close reset
	N    int       `json:"n,omitempty"`
	Seed uint64    `json:"seed,omitempty"`
	Set  *optDelta `json:"set,omitempty"`
	Fail int       `json:"fail,omitempty"` // readfrom: > 0, the source fails at its Fail-th Read call (C08)
}

func (o wOp) String() string {
	switch o.Op {
	case "apply":
		return "Apply" + o.Set.String()
	case "write", "readfrom":
		return fmt.Sprintf("%s(%d)", o.Op, o.N)
	}
	return o.Op
}

type c17WCase struct {
	Ops       []wOp `json:"ops"`
	Sched     []int `json:"sched,omitempty"`    // virtual-time delays (microseconds) at the hook sites, cyclic
	SinkFail  int   `json:"sinkfail,omitempty"` // > 0: the k-th Write call on every sink fails (once, or from then on)
	Sticky    bool  `json:"sticky,omitempty"`
	FailKind  int   `json:"failkind,omitempty"`  // the injected sink error: 0 plain, 1 wraps io.EOF, 2 wraps io.ErrUnexpectedEOF
	OnlyFirst bool  `json:"onlyfirst,omitempty"` // only the first sink of the history fails; the sinks handed to Reset later are healthy (what an old failure leaves behind must not show)
}

// recorded option vector of the model (NewWriter defaults)
type mOpts struct {
	BS         int
	BlockSum   bool
	ContentSum bool
	Size       uint64
	Level      uint32
	Conc       int
	Legacy     bool
}

func defaultMOpts() mOpts { return mOpts{BS: 7, ContentSum: true, Conc: 1} }

func (m *mOpts) apply(d *optDelta) {
	if d.BS != nil {
		m.BS = *d.BS
	}
	if d.BlockSum != nil {
		m.BlockSum = *d.BlockSum
	}
	if d.ContentSum != nil {
		m.ContentSum = *d.ContentSum
	}
	if d.Size != nil {
		m.Size = *d.Size
	}
	if d.Level != nil {
		m.Level = *d.Level
	}
	if d.Conc != nil {
		m.Conc = *d.Conc
	}
	if d.Legacy != nil {
		m.Legacy = *d.Legacy
	}
}

func (d *optDelta) options() []lz4.Option {
	var o []lz4.Option
	if d.BS != nil {
		o = append(o, lz4.BlockSizeOption(blockSizes[*d.BS]))
	}
	if d.BlockSum != nil {
		o = append(o, lz4.BlockChecksumOption(*d.BlockSum))
	}
	if d.ContentSum != nil {
		o = append(o, lz4.ChecksumOption(*d.ContentSum))
	}
	if d.Size != nil {
		o = append(o, lz4.SizeOption(*d.Size))
	}
	if d.Level != nil {
		o = append(o, lz4.CompressionLevelOption(lz4.CompressionLevel(*d.Level)))
	}
	if d.Conc != nil {
		o = append(o, lz4.ConcurrencyOption(*d.Conc))
	}
	if d.Legacy != nil {
		o = append(o, lz4.LegacyOption(*d.Legacy))
	}
	if d.BSRaw != nil {
		o = append(o, lz4.BlockSizeOption(lz4.BlockSize(*d.BSRaw)))
	}
	if d.LevelRaw != nil {
		o = append(o, lz4.CompressionLevelOption(lz4.CompressionLevel(*d.LevelRaw)))
	}
	return o
}

func (m mOpts) all() []lz4.Option {
	return []lz4.Option{lz4.BlockSizeOption(blockSizes[m.BS]), lz4.BlockChecksumOption(m.BlockSum), lz4.ChecksumOption(m.ContentSum), lz4.SizeOption(m.Size),
		lz4.CompressionLevelOption(lz4.CompressionLevel(m.Level)), lz4.ConcurrencyOption(m.Conc), lz4.LegacyOption(m.Legacy)}
}

func (m mOpts) String() string {
	return fmt.Sprintf("bs=%d bsum=%v csum=%v size=%d level=%d conc=%d legacy=%v", m.BS, m.BlockSum, m.ContentSum, m.Size, m.Level, m.Conc, m.Legacy)
}

func opData(n int, seed uint64) []byte {
	b := make([]byte, n)
	gen.Fill(b, seed)
	if seed%3 != 0 {
		for i := range b {
			b[i] = 'a' + b[i]%5
		}
	}
	return b
}

const (
	wsFresh = iota
	wsOpen
	wsClosed
	wsErrored
)

var wsNames = []string{"fresh", "open", "closed", "errored"}

// checkEpochFrame: the bytes of a closed epoch are exactly one frame of the accepted data
// whose header shows the recorded options.
func checkEpochFrame(z, accepted []byte, o mOpts, flushed bool) *stat.Failure {
	mode := ref.Strict
	if o.Size != 0 && o.Size != uint64(len(accepted)) || (o.Legacy && flushed) {
		// a declared size that the caller got wrong is the caller's business; a mid-stream
		// Flush legitimately cuts a short legacy block
		mode = ref.Walk
	}
	f := ref.ParseFrame(z, mode)
	if !f.OK() {
		return stat.Failf("C17/writer/closed-epoch-is-not-one-valid-frame/"+firstWords(stripBlockNo(f.Err), 3), "options %s, %d bytes accepted, %d bytes emitted: reference parser at %d: %s", o, len(accepted), len(z), f.ErrOff, f.Err)
	}
	if f.Consumed != len(z) {
		return stat.Failf("C17/writer/bytes-after-the-frame", "options %s: frame ends at %d, %d bytes were emitted in this epoch", o, f.Consumed, len(z))
	}
	if !bytes.Equal(f.Content, accepted) {
		return stat.Failf("C17/writer/frame-content-is-not-the-accepted-data", "options %s: frame holds %d bytes, %d were accepted, first difference at %d", o, len(f.Content), len(accepted), firstDiff(f.Content, accepted))
	}
	if f.Legacy != o.Legacy {
		return stat.Failf("C17/writer/legacy-option-not-in-force", "options %s: legacy frame = %v", o, f.Legacy)
	}
	if !f.Legacy {
		if f.BSCode != o.BS || f.BlockSum != o.BlockSum || f.ContentSum != o.ContentSum || f.HasSize != (o.Size != 0) || (f.HasSize && f.Size != o.Size) {
			return stat.Failf("C17/writer/header-does-not-show-the-options-in-force", "recorded options %s; header FLG=%02x BD=%02x size=%d", o, f.FLG, f.BD, f.Size)
		}
	}
	return nil
}

// replayEpoch writes the same epoch with a really fresh Writer.
func replayEpoch(o mOpts, ops []wOp) ([]byte, error) {
	var sink inst.Sink
	w := lz4.NewWriter(&sink)
	if err := w.Apply(o.all()...); err != nil {
		return nil, err
	}
	for _, op := range ops {
		switch op.Op {
		case "write":
			if _, err := writeScribbled(w, opData(op.N, op.Seed)); err != nil {
				return nil, err
			}
		case "readfrom":
			if _, err := w.ReadFrom(bytes.NewReader(opData(op.N, op.Seed))); err != nil {
				return nil, err
			}
		case "flush":
			if err := w.Flush(); err != nil {
				return nil, err
			}
		}
	}
	if err := w.Close(); err != nil {
		return nil, err
	}
	return sink.Buf, nil
}

type wRun struct {
	rec     *stat.Rec
	cur     int // index of the op being executed (for hang attribution)
	curDesc string
	fail    *stat.Failure
	classes []string
}

// runWriterHistory executes the ops on a real Writer next to the model. It must run inside a bubble.
func (r *wRun) run(c c17WCase) {
	opts := defaultMOpts()
	state := wsFresh
	var accepted []byte
	var epoch []wOp
	flushed := false
	total := 0
	for _, op := range c.Ops {
		total += op.N
	}
	class := func(s string) { r.classes = append(r.classes, s) }
	nsinks := 0
	newSink := func() *inst.Sink {
		nsinks++
		if c.OnlyFirst && nsinks > 1 {
			return &inst.Sink{Cap: 48<<20 + 2*total}
		}
		return &inst.Sink{Cap: 48<<20 + 2*total, FailAt: c.SinkFail, Sticky: c.Sticky, FailWith: []error{nil, inst.ErrInjectedWrapsEOF, inst.ErrInjectedWrapsUnexpectedEOF, io.EOF}[c.FailKind%4]}
	}
	// a call that reports the injected sink failure puts the object into its error state: from then on, until Reset,
	// calls may fail but must neither hang nor panic
	var sink *inst.Sink
	sinkReported := false // a call of the current epoch has returned the injected sink failure
	injected := func(err error) bool {
		if err != nil && c.SinkFail > 0 && (errors.Is(err, inst.ErrInjected) || (c.FailKind%4 == 3 && errors.Is(err, io.EOF) && len(sink.FailedAt) > 0)) {
			if c.OnlyFirst && nsinks > 1 {
				// the sink of this epoch is healthy: the failure comes from an earlier epoch, across a Reset
				return false
			}
			class("sink-failure/reported")
			sinkReported = true
			return true
		}
		return false
	}
	sink = newSink()
	w := lz4.NewWriter(sink)
	for i, op := range c.Ops {
		r.cur = i
		conc := "seq"
		if concOf(opts.Conc) > 1 {
			conc = "conc"
		}
		r.curDesc = fmt.Sprintf("%s-in-%s-state/%s", op.Op, wsNames[state], conc)
		before := len(sink.Buf)
		where := fmt.Sprintf("op %d %s in state %s (options %s)", i, op, wsNames[state], opts)
		reportedBefore, stateBefore := sinkReported, state
		var opErr error
		opCalled := false
		switch op.Op {
		case "apply":
			err := w.Apply(op.Set.options()...)
			if op.Set.BSRaw != nil || op.Set.LevelRaw != nil {
				// a block size that is none of the four defined ones: whatever Apply answers (it ought to be an error), the calls
				// that follow must neither hang nor panic; nothing else is judged until Reset
				class("misuse/apply-undefined-block-size")
				if err == nil {
					class("misuse/apply-undefined-block-size/accepted")
				}
				state = wsErrored
				break
			}
			switch state {
			case wsFresh:
				if err != nil {
					r.fail = stat.Failf("C17/writer/apply-of-valid-options-fails-on-fresh-object", "%s: %v", where, err)
					return
				}
				opts.apply(op.Set)
			case wsOpen, wsClosed:
				// must not change any later header; the object may now be in its error state
				class("misuse/apply-after-first-write")
				state = wsErrored
			}
		case "write":
			data := opData(op.N, op.Seed)
			n, err := writeScribbled(w, data)
			opErr, opCalled = err, true
			switch state {
			case wsFresh, wsOpen:
				if injected(err) {
					state = wsErrored
					break
				}
				if err != nil || n != len(data) {
					r.fail = stat.Failf("C17/writer/legal-write-fails/"+errClass(err), "%s: (%d, %v)", where, n, err)
					return
				}
				accepted = append(accepted, data...)
				epoch = append(epoch, op)
				state = wsOpen
			case wsClosed:
				class("misuse/write-after-close")
				if err == nil {
					r.fail = stat.Failf("C17/writer/write-after-close-succeeds", "%s: (%d, nil)", where, n)
					return
				}
				if len(sink.Buf) != before {
					r.fail = stat.Failf("C17/writer/write-after-close-emits-output", "%s: %d bytes added to the sink, returned (%d, %v)", where, len(sink.Buf)-before, n, err)
					return
				}
			}
		case "readfrom":
			data := opData(op.N, op.Seed)
			n, err := w.ReadFrom(bytes.NewReader(data))
			opErr, opCalled = err, true
			switch state {
			case wsFresh:
				if injected(err) {
					state = wsErrored
					break
				}
				if err != nil || n != int64(len(data)) {
					r.fail = stat.Failf("C17/writer/legal-readfrom-fails/"+errClass(err), "%s: (%d, %v)", where, n, err)
					return
				}
				accepted = append(accepted, data...)
				epoch = append(epoch, op)
				state = wsOpen
				flushed = true // ReadFrom emits its data as blocks at once, like Write+Flush
			case wsOpen:
				class("misuse/readfrom-after-write")
				if err != nil {
					// (on a concurrent Writer earlier blocks may still be reaching the sink, so the sink is only compared on sequential objects)
					if len(sink.Buf) != before && concOf(opts.Conc) == 1 {
						r.fail = stat.Failf("C17/writer/rejected-readfrom-emits-output", "%s: %d bytes added, returned (%d, %v)", where, len(sink.Buf)-before, n, err)
						return
					}
					state = wsErrored
				} else {
					accepted = append(accepted, data...)
					epoch = append(epoch, op)
				}
			case wsClosed:
				class("misuse/readfrom-after-close")
				if err == nil {
					r.fail = stat.Failf("C17/writer/readfrom-after-close-succeeds", "%s: (%d, nil)", where, n)
					return
				}
				if len(sink.Buf) != before {
					r.fail = stat.Failf("C17/writer/readfrom-after-close-emits-output", "%s: %d bytes added", where, len(sink.Buf)-before)
					return
				}
			}
		case "flush":
			err := w.Flush()
			opErr, opCalled = err, true
			switch state {
			case wsFresh, wsOpen:
				if injected(err) {
					state = wsErrored
					break
				}
				if err != nil {
					r.fail = stat.Failf("C17/writer/legal-flush-fails/"+errClass(err), "%s: %v", where, err)
					return
				}
				epoch = append(epoch, op)
				flushed = true
				state = wsOpen
				if concOf(opts.Conc) == 1 {
					class("flush/sequential-prefix-checked")
					f := ref.ParseFrame(sink.Buf, ref.Walk)
					ok := bytes.Equal(f.Content, accepted)
					if opts.Legacy {
						ok = ok && f.OK()
					} else {
						ok = ok && f.Truncated && f.ErrOff == len(sink.Buf) && !f.EndMark
					}
					if !ok {
						r.fail = stat.Failf("C17/writer/sink-after-flush-is-not-a-decodable-prefix-of-everything-written", "%s: sink has %d bytes; reference prefix parse: %d content bytes of %d accepted, err=%q at %d", where, len(sink.Buf), len(f.Content), len(accepted), f.Err, f.ErrOff)
						return
					}
				}
			case wsClosed:
				class("misuse/flush-after-close")
				if len(sink.Buf) != before {
					r.fail = stat.Failf("C17/writer/flush-after-close-emits-output", "%s: %d bytes added (returned %v)", where, len(sink.Buf)-before, err)
					return
				}
			}
		case "close":
			err := w.Close()
			opErr, opCalled = err, true
			switch state {
			case wsFresh, wsOpen:
				if injected(err) {
					state = wsErrored
					break
				}
				if c.SinkFail > 0 && len(sink.FailedAt) > 0 {
					r.fail = stat.Failf("C17/writer/sink-failure-never-reported", "%s: the sink failed at call(s) %v, Close returned %v", where, sink.FailedAt, err)
					return
				}
				if err != nil {
					r.fail = stat.Failf("C17/writer/legal-close-fails/"+errClass(err), "%s: %v", where, err)
					return
				}
				if f := checkEpochFrame(sink.Buf, accepted, opts, flushed); f != nil {
					f.Msg = where + ": " + f.Msg
					r.fail = f
					return
				}
				// Reset-indistinguishability / determinism: a really fresh Writer with the recorded options emits the same bytes
				fresh, ferr := replayEpoch(opts, epoch)
				if ferr != nil {
					r.fail = stat.Failf("C17/writer/fresh-writer-cannot-replay-the-epoch/"+errClass(ferr), "%s: %v", where, ferr)
					return
				}
				if !bytes.Equal(fresh, sink.Buf) {
					r.fail = stat.Failf("C17/writer/reused-object-differs-from-fresh-object", "%s: %d bytes vs %d bytes from a fresh Writer with the same options and calls, first difference at %d", where, len(sink.Buf), len(fresh), firstDiff(fresh, sink.Buf))
					return
				}
				class("epoch/closed-and-checked")
				if len(epoch) > 0 && i > len(epoch)+1 {
					class("epoch/closed-after-a-reset")
				}
				state = wsClosed
			case wsClosed:
				class("misuse/double-close")
				if len(sink.Buf) != before {
					r.fail = stat.Failf("C17/writer/second-close-emits-output", "%s: %d bytes added (returned %v)", where, len(sink.Buf)-before, err)
					return
				}
			}
		case "reset":
			if state == wsOpen {
				class("misuse/reset-without-close")
			}
			if state == wsClosed {
				class("reuse/reset-after-close")
			}
			sink = newSink()
			w.Reset(sink)
			state, accepted, epoch, flushed = wsFresh, nil, nil, false
			sinkReported = false
		}
		// a sequential Writer that has reported a sink failure cannot know what reached the sink: whatever it is handed
		// afterwards cannot become part of one well-formed frame, so no later call of the epoch may claim success
		if opCalled && reportedBefore && stateBefore == wsErrored && concOf(opts.Conc) == 1 {
			class("sink-failure/later-call-in-the-same-epoch")
			if opErr == nil {
				r.fail = stat.Failf("C17/writer/call-succeeds-after-a-reported-sink-failure/"+op.Op, "%s: an earlier call of this epoch returned the sink's failure (sink calls that failed: %v); this call returned nil; the sink holds %d bytes", where, sink.FailedAt, len(sink.Buf))
				return
			}
		}
		if state == wsErrored {
			class("state/errored")
		}
	}
	// epilogue: close the last epoch so that the leak verdict of the bubble is meaningful
	r.cur, r.curDesc = len(c.Ops), "epilogue-close-in-"+wsNames[state]+"-state"
	if state == wsErrored {
		// an object in its error state is only required to be usable again after Reset
		w.Reset(newSink())
	}
	_ = w.Close()
}

func setSchedule(sched []int) func() {
	if len(sched) == 0 {
		yieldHook.Store(nil)
		return func() {}
	}
	f := func(site int) {
		if d := sched[site%len(sched)]; d > 0 {
			inst.BubbleSleep(time.Duration(d) * time.Microsecond)
		}
	}
	yieldHook.Store(&f)
	return func() { yieldHook.Store(nil) }
}

var bubbleT *testing.T // the *testing.T that owns the bubbles of the running test

func runC17W(c c17WCase, rec *stat.Rec) *stat.Failure {
	if !inst.BubbleSupported {
		return stat.Failf("harness-problem", "C17 must be built with Go >= 1.25 (testing/synctest)")
	}
	rec.Eval()
	r := &wRun{rec: rec}
	restore := setSchedule(c.Sched)
	verdict, detail := inst.RunBubble(bubbleT, func() { r.run(c) })
	restore()
	if r.fail != nil {
		return r.fail
	}
	switch verdict {
	case "deadlock":
		return stat.Failf("C17/writer/call-never-returns/"+r.curDesc, "op %d of %v never returns: %s", r.cur, c.Ops, detail)
	case "leak":
		return stat.Failf("C17/writer/goroutines-left-blocked-after-close", "history %v: %s", c.Ops, detail)
	case "panic":
		return stat.Failf("C17/writer/panic/"+r.curDesc, "op %d of %v: %s", r.cur, c.Ops, detail)
	}
	for _, cl := range r.classes {
		rec.Class("writer/" + cl)
	}
	nt := false
	for i, op := range c.Ops {
		if (op.Op == "close" && i+1 < len(c.Ops)) || (op.Op == "reset" && i > 0) {
			nt = true
		}
	}
	if nt {
		rec.NonTrivial(stat.FP("w", fmt.Sprint(c.Ops), fmt.Sprint(c.Sched)))
		rec.Class("writer/nontrivial")
	}
	rec.Sample(map[string]interface{}{"object": "Writer", "history": fmt.Sprint(c.Ops)})
	return nil
}

func bp(b bool) *bool       { return &b }
func ip(i int) *int         { return &i }
func up(u uint64) *uint64   { return &u }
func u32p(u uint32) *uint32 { return &u }

func drawOptDelta(t *rapid.T) *optDelta {
	d := &optDelta{}
	if rapid.IntRange(0, 2).Draw(t, "set.bs") > 0 {
		d.BS = ip(rapid.SampledFrom([]int{4, 4, 4, 5, 7}).Draw(t, "bs"))
	}
	if rapid.Bool().Draw(t, "set.bsum") {
		d.BlockSum = bp(rapid.Bool().Draw(t, "bsum"))
	}
	if rapid.Bool().Draw(t, "set.csum") {
		d.ContentSum = bp(rapid.Bool().Draw(t, "csum"))
	}
	if rapid.IntRange(0, 3).Draw(t, "set.size") == 0 {
		d.Size = up(rapid.SampledFrom([]uint64{0, 5, 70000, 1 << 40}).Draw(t, "size"))
	}
	if rapid.IntRange(0, 3).Draw(t, "set.level") == 0 {
		d.Level = u32p(rapid.SampledFrom([]uint32{0, uint32(lz4.Level1), uint32(lz4.Level5)}).Draw(t, "level"))
	}
	if rapid.Bool().Draw(t, "set.conc") {
		d.Conc = ip(rapid.SampledFrom([]int{1, 2, 2, 4}).Draw(t, "conc"))
	}
	if rapid.IntRange(0, 2).Draw(t, "set.legacy") == 0 {
		d.Legacy = bp(rapid.IntRange(0, 2).Draw(t, "legacy") == 0)
	}
	return d
}

var c17WriteLens = []int{0, 1, 5, 100, 65535, 65536, 65537, 70000, 200000}

// drawC17WEpochs draws a history made of complete epochs (optional Apply of an option subset, a few writes,
// Close, Reset): what one epoch leaves behind in the object (legacy mode, block size, size, flags, pipeline) is
// what the next ones run on.
func drawC17WEpochs(t *rapid.T) c17WCase {
	var c c17WCase
	k := rapid.IntRange(2, 6).Draw(t, "nepochs")
	for e := 0; e < k; e++ {
		if rapid.IntRange(0, 9).Draw(t, "apply?") < 6 {
			d := &optDelta{}
			if rapid.Bool().Draw(t, "e.legacy?") {
				d.Legacy = bp(rapid.Bool().Draw(t, "e.legacy"))
			}
			if rapid.IntRange(0, 3).Draw(t, "e.bs?") == 0 {
				d.BS = ip(rapid.SampledFrom([]int{4, 5, 7}).Draw(t, "e.bs"))
			}
			if rapid.IntRange(0, 3).Draw(t, "e.more?") == 0 {
				m := drawOptDelta(t)
				if d.Legacy == nil {
					d.Legacy = m.Legacy
				}
				d.BlockSum, d.ContentSum, d.Size, d.Conc, d.Level = m.BlockSum, m.ContentSum, m.Size, m.Conc, m.Level
			}
			c.Ops = append(c.Ops, wOp{Op: "apply", Set: d})
		}
		for w := rapid.IntRange(0, 2).Draw(t, "nwrites"); w > 0; w-- {
			c.Ops = append(c.Ops, wOp{Op: "write", N: rapid.SampledFrom([]int{0, 5, 100, 70000}).Draw(t, "n"), Seed: rapid.Uint64Range(0, 1000).Draw(t, "seed")})
		}
		if rapid.IntRange(0, 9).Draw(t, "close?") != 0 {
			c.Ops = append(c.Ops, wOp{Op: "close"})
		}
		c.Ops = append(c.Ops, wOp{Op: "reset"})
	}
	c.Ops = append(c.Ops, wOp{Op: "write", N: 9, Seed: 3}, wOp{Op: "close"})
	return c
}

// drawC17WAfterFailure: a sink that fails early, and a caller that carries on regardless (more Writes, Flush, Close,
// Close again) before it finally Resets: nothing of that may hang or panic, and after Reset the object is as new.
func drawC17WAfterFailure(t *rapid.T) c17WCase {
	var c c17WCase
	c.SinkFail = rapid.IntRange(1, 5).Draw(t, "sinkfail")
	c.Sticky = rapid.Bool().Draw(t, "sticky")
	c.FailKind = rapid.IntRange(0, 3).Draw(t, "failkind")
	c.OnlyFirst = rapid.Bool().Draw(t, "onlyfirst")
	d := &optDelta{BS: ip(4), Conc: ip(rapid.SampledFrom([]int{1, 1, 2, 4}).Draw(t, "conc"))}
	if rapid.IntRange(0, 3).Draw(t, "legacy?") == 0 {
		d.Legacy = bp(true)
	}
	c.Ops = append(c.Ops, wOp{Op: "apply", Set: d})
	ops := []string{"write", "write", "flush", "close", "close", "readfrom"}
	for i := rapid.IntRange(2, 9).Draw(t, "n"); i > 0; i-- {
		op := wOp{Op: rapid.SampledFrom(ops).Draw(t, "op")}
		if op.Op == "write" || op.Op == "readfrom" {
			op.N = rapid.SampledFrom([]int{0, 5, 100, 65536, 70000, 200000}).Draw(t, "n")
			op.Seed = rapid.Uint64Range(0, 1000).Draw(t, "seed")
		}
		c.Ops = append(c.Ops, op)
	}
	c.Ops = append(c.Ops, wOp{Op: "reset"}, wOp{Op: "write", N: 9, Seed: 3}, wOp{Op: "close"})
	return c
}

func drawC17W(t *rapid.T) c17WCase {
	switch rapid.IntRange(0, 5).Draw(t, "mode") {
	case 0, 1:
		return drawC17WEpochs(t)
	case 2:
		return drawC17WAfterFailure(t)
	}
	var c c17WCase
	n := rapid.IntRange(1, pick(14, 40)).Draw(t, "nops")
	state := wsFresh
	for i := 0; i < n; i++ {
		var weights map[string]int
		switch state {
		case wsFresh:
			weights = map[string]int{"apply": 25, "write": 30, "readfrom": 10, "flush": 8, "close": 10, "reset": 7}
		case wsOpen:
			weights = map[string]int{"write": 35, "flush": 15, "close": 28, "reset": 8, "apply": 4, "readfrom": 4}
		case wsClosed:
			weights = map[string]int{"reset": 55, "write": 14, "close": 14, "flush": 5, "readfrom": 5, "apply": 5}
		default:
			weights = map[string]int{"reset": 75, "write": 7, "close": 7, "flush": 4, "readfrom": 3, "apply": 4}
		}
		names := []string{"apply", "write", "readfrom", "flush", "close", "reset"}
		total := 0
		for _, k := range names {
			total += weights[k]
		}
		x := rapid.IntRange(0, total-1).Draw(t, "op")
		var op wOp
		for _, k := range names {
			if x < weights[k] {
				op.Op = k
				break
			}
			x -= weights[k]
		}
		switch op.Op {
		case "apply":
			op.Set = drawOptDelta(t)
			if rapid.IntRange(0, 7).Draw(t, "undefined-bs?") == 0 {
				op.Set = &optDelta{} // (alone: the options in front of a failing one in the same Apply have taken effect)
				if rapid.IntRange(0, 3).Draw(t, "badlevel?") == 0 {
					op.Set.LevelRaw = u32p(rapid.SampledFrom([]uint32{1, 3, 511, 513, 1 << 18, 1 << 31}).Draw(t, "levelraw"))
				} else {
					op.Set.BSRaw = u32p(rapid.SampledFrom([]uint32{8 << 20, 0, 1, 65535, 65537, 4<<20 + 1, 16 << 20, 1 << 31}).Draw(t, "bsraw"))
				}
				state = wsErrored
			}
			if state != wsFresh {
				state = wsErrored
			}
		case "write", "readfrom":
			op.N = rapid.SampledFrom(c17WriteLens).Draw(t, "n")
			op.Seed = rapid.Uint64Range(0, 1000).Draw(t, "seed")
			if state == wsFresh {
				state = wsOpen
			} else if state == wsOpen && op.Op == "readfrom" {
				state = wsErrored
			}
		case "flush":
			if state == wsFresh {
				state = wsOpen
			}
		case "close":
			if state == wsFresh || state == wsOpen {
				state = wsClosed
			}
		case "reset":
			state = wsFresh
		}
		c.Ops = append(c.Ops, op)
	}
	if rapid.Bool().Draw(t, "sched?") {
		c.Sched = rapid.SliceOfN(rapid.SampledFrom([]int{0, 0, 1, 2, 5, 50}), 1, 17).Draw(t, "sched")
	}
	if rapid.IntRange(0, 4).Draw(t, "sinkfail?") == 0 {
		// histories that go on after a sink failure (without Reset: may fail, must not hang or panic; after Reset: as new)
		c.SinkFail = rapid.IntRange(1, 8).Draw(t, "sinkfail")
		c.Sticky = rapid.Bool().Draw(t, "sticky")
		c.FailKind = rapid.IntRange(0, 3).Draw(t, "failkind")
		c.OnlyFirst = rapid.Bool().Draw(t, "onlyfirst")
	}
	return c
}

func init() { register("C17", "C17/writer", runC17W) }

const c17Rule = "Writer and Reader call histories against a reference model of the life cycle, each history run inside a testing/synctest bubble (a call that never returns and a goroutine left " +
	"blocked are detected deterministically) with drawn virtual-time delays at the library's hook sites. Writer ops: Apply(option subsets incl. toggling legacy and concurrency), Write/ReadFrom " +
	"(lengths 0,1,5,100,64Ki-1,64Ki,64Ki+1,70000,200000), Flush, Close, Reset; Reader ops: Apply, Read(sizes), WriteTo, Size, Reset onto modern / dependent-block / legacy / empty / malformed frames " +
	"with trailing bytes. Exhaustive: every sequence of <= 4 (thorough 5) calls over a 12-call alphabet on sequential and concurrent objects; then rapid-drawn histories up to 14 (thorough 40) calls. " +
	"Oracle: legal calls succeed; at Close the epoch's sink bytes are exactly one frame (independent parser) of the accepted data whose header shows the recorded options and are byte-identical to a " +
	"fresh object's output; after Close writes fail without output and Close/Flush emit nothing; after a sequential Flush the sink is a decodable prefix of everything written; a Reader matches the " +
	"reference content, keeps returning (0, io.EOF) without consuming the source, reports Size per the header, and after Reset behaves exactly like a fresh Reader on the same frame. " +
	"Non-trivial = a Close or end of stream followed by >= 1 more call, or a Reset after data; distinct by hash(history, schedule)."

func TestC17Writer(t *testing.T) {
	bubbleT = t
	rec := stat.For("C17")
	rec.SetRule(c17Rule)
	rec.Require("writer/nontrivial", "writer/sink-failure/reported", "writer/misuse/write-after-close", "writer/misuse/double-close", "writer/reuse/reset-after-close", "writer/misuse/apply-after-first-write", "writer/misuse/reset-without-close", "writer/flush/sequential-prefix-checked", "writer/epoch/closed-after-a-reset")
	checkProp(t, "C17", "C17/writer", pick(2500, 80000), drawC17W, runC17W)
}

// TestC17WriterExhaustive enumerates every call sequence up to length 4 (5 in the thorough
// tier) over a 12-call alphabet, on a sequential and on a concurrent object.
func TestC17WriterExhaustive(t *testing.T) {
	bubbleT = t
	rec := stat.For("C17")
	rec.SetRule(c17Rule)
	alphabet := []wOp{
		{Op: "apply", Set: &optDelta{BS: ip(4), BlockSum: bp(true), Size: up(7)}},
		{Op: "apply", Set: &optDelta{Legacy: bp(true)}},
		{Op: "apply", Set: &optDelta{Legacy: bp(false)}},
		{Op: "apply", Set: &optDelta{Conc: ip(2)}},
		{Op: "apply", Set: &optDelta{Conc: ip(1), ContentSum: bp(false)}},
		{Op: "apply", Set: &optDelta{BSRaw: u32p(8 << 20)}},
		{Op: "write", N: 0}, {Op: "write", N: 7, Seed: 1}, {Op: "write", N: 70000, Seed: 2},
		{Op: "readfrom", N: 9, Seed: 4}, {Op: "flush"}, {Op: "close"}, {Op: "reset"},
	}
	maxLen := pick(4, 5)
	var seq []wOp
	count := 0
	var rec1 func(depth int)
	rec1 = func(depth int) {
		if len(seq) > 0 {
			for _, start := range [][]wOp{{{Op: "apply", Set: &optDelta{BS: ip(4)}}}, {{Op: "apply", Set: &optDelta{BS: ip(4), Conc: ip(2)}}}} {
				count++
				if count%nshards != shard {
					continue
				}
				c := c17WCase{Ops: append(append([]wOp(nil), start...), seq...)}
				pinned(t, "C17", "C17/writer", c, runC17W)
			}
		}
		if depth == maxLen || t.Failed() {
			return
		}
		for _, op := range alphabet {
			seq = append(seq, op)
			rec1(depth + 1)
			seq = seq[:len(seq)-1]
		}
	}
	rec1(0)
	rec.SetExtra("writer_sequences_enumerated", count/nshards)
}
