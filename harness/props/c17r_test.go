package props

import (
	"bytes"
	"fmt"
	"io"
	"testing"
	"time"

	lz4 "github.com/pierrec/lz4/v4"
	"pgregory.net/rapid"

	"verifharness/gen"
	"verifharness/inst"
	"verifharness/ref"
	"verifharness/stat"
)

// C17 (Reader half).

type rFrame struct {
	Kind  string         `json:"kind"` // writer | enc | badoffset | mutated
	Opts  wopts          `json:"opts,omitempty"`
	N     int            `json:"n,omitempty"`
	Seed  uint64         `json:"seed,omitempty"`
	Spec  *gen.FrameSpec `json:"spec,omitempty"`
	Mut   *mutation      `json:"mut,omitempty"`
	Trail int            `json:"trail,omitempty"` // bytes after the frame: 0 none, else that many (a second frame's bytes / junk)
}

func (f rFrame) build() []byte {
	var z []byte
	switch f.Kind {
	case "nothing":
		// no data frame at all: N complete skippable frames (N may be 0: the empty source)
		for i := 0; i < f.N; i++ {
			z = append(z, byte(0x50+i), 0x2A, 0x4D, 0x18, 3, 0, 0, 0, 'x', 'y', 'z')
		}
		return z
	case "enc", "badoffset":
		z, _ = f.Spec.Build()
	default:
		data := opData(f.N, f.Seed)
		var sink inst.Sink
		w := lz4.NewWriter(&sink)
		if w.Apply(f.Opts.options(len(data), nil)...) == nil {
			_, _ = w.Write(data)
			_ = w.Close()
		}
		z = sink.Buf
	}
	if f.Mut != nil {
		z = applyMutations(z, nil, []mutation{*f.Mut})
	}
	if f.Trail > 0 {
		junk := make([]byte, f.Trail)
		gen.Fill(junk, uint64(f.Trail))
		// trailing data that looks like the start of another frame
		copy(junk, []byte{0x04, 0x22, 0x4D, 0x18, 0x60, 0x40, 0x82})
		z = append(z, junk...)
	}
	return z
}

type rOp struct {
	Op    string `json:"op"` // apply read writeto size reset
	N     int    `json:"n,omitempty"`
	Conc  int    `json:"conc,omitempty"`
	Frame int    `json:"frame,omitempty"`
}

func (o rOp) String() string {
	switch o.Op {
	case "read":
		return fmt.Sprintf("Read(%d)", o.N)
	case "apply":
		return fmt.Sprintf("Apply(conc=%d)", o.Conc)
	case "reset":
		return fmt.Sprintf("Reset(frame %d)", o.Frame)
	case "writetofail":
		return fmt.Sprintf("WriteTo(destination failing at call %d)", o.N)
	}
	return o.Op
}

type c17RCase struct {
	Frames []rFrame `json:"frames"`
	Ops    []rOp    `json:"ops"`
	Sched  []int    `json:"sched,omitempty"`
}

const (
	rsFresh = iota
	rsReading
	rsEOF
	rsErrored
)

var rsNames = []string{"fresh", "reading", "at-eof", "errored"}

type opResult struct {
	N        int64
	Bytes    []byte
	Err      string
	Size     int
	Consumed int
}

// execROp runs one op on a Reader and returns what can be observed.
func execROp(r *lz4.Reader, src *inst.Source, op rOp, handled *int) opResult {
	var res opResult
	switch op.Op {
	case "apply":
		err := r.Apply(lz4.ConcurrencyOption(op.Conc), lz4.OnBlockDoneOption(func(n int) { *handled += n }))
		res.Err = errClass(err)
	case "read":
		bp := readBufPool.Get().(*[]byte)
		if len(*bp) < op.N {
			*bp = make([]byte, op.N)
		}
		n, err := r.Read((*bp)[:op.N])
		res.N, res.Err = int64(n), errClass(err)
		if err == io.EOF {
			res.Err = "EOF"
		}
		if n > 0 && n <= op.N {
			res.Bytes = append([]byte(nil), (*bp)[:n]...)
		}
		readBufPool.Put(bp)
	case "writeto", "writetofail":
		var sink inst.Sink
		if op.Op == "writetofail" {
			sink.FailAt = op.N // the destination fails at its N-th call
		}
		n, err := r.WriteTo(&sink)
		res.N, res.Err, res.Bytes = n, errClass(err), sink.Buf
	case "size":
		res.Size = r.Size()
	}
	if src != nil {
		// (wait for the pipeline to come to rest: how far a concurrent Reader has read ahead is then a function of its
		// concurrency setting, not of the scheduler)
		inst.Quiesce()
		res.Consumed = src.Consumed()
	}
	return res
}

type rRun struct {
	cur      int
	curDesc  string
	fail     *stat.Failure
	classes  []string
	abandons bool // a concurrent Reader epoch was abandoned before its end (goroutines may stay blocked: not judged)
}

func (r *rRun) run(c c17RCase) {
	frames := make([][]byte, len(c.Frames))
	parsed := make([]*ref.Frame, len(c.Frames))
	for i, f := range c.Frames {
		frames[i] = f.build()
		parsed[i] = ref.ParseFrame(frames[i], ref.Lenient)
	}
	class := func(s string) { r.classes = append(r.classes, s) }
	conc := 1
	epochConc := 1 // concurrency option in force when the current epoch started
	handlerOn := false
	state := rsFresh
	cur := 0 // current frame
	var out []byte
	var epoch []rOp
	handled := 0
	src := &inst.Source{Data: frames[0]}
	rd := lz4.NewReader(src)
	eofConsumed := 0
	for i, op := range c.Ops {
		r.cur = i
		cm := "seq"
		if conc > 1 {
			cm = "conc"
		}
		r.curDesc = fmt.Sprintf("%s-in-%s-state/%s", op.Op, rsNames[state], cm)
		fr := parsed[cur]
		valid := fr.OK() && fr.OutOfDom == "" && fr.Unspec == ""
		if c.Frames[cur].Kind == "nothing" {
			// a source without any data frame is a stream that ends at once: no content, everything consumed
			fr = &ref.Frame{Consumed: len(frames[cur]), BlockIndep: true}
			valid = true
		}
		where := fmt.Sprintf("op %d %s in state %s (frame %d: %s, %d bytes, reference: ok=%v %s; concurrency %d)", i, op, rsNames[state], cur, c.Frames[cur].Kind, len(frames[cur]), fr.OK(), fr.Err, conc)
		if op.Op == "reset" {
			if state == rsReading && conc > 1 && !fr.Legacy && fr.BlockIndep {
				// (since the repair of Reader.Reset the pipeline of the abandoned stream is drained in the background, so its
				// goroutines must be gone at the end of the history like everybody else's: the leak verdict is judged)
				class("abandoned_epoch(drained-by-Reset)")
			}
			if state == rsEOF {
				class("reuse/reset-after-eof")
			}
			if state == rsReading {
				class("misuse/reset-mid-stream")
			}
			cur = op.Frame % len(frames)
			old := src
			src = &inst.Source{Data: frames[cur]}
			rd.Reset(src)
			// a new Reader would never touch the source of an earlier stream: once Reset has returned, the old source must not be
			// read any more (virtual time passes, so whatever is still running in the background gets its chance)
			callsAtReset := old.Calls
			time.Sleep(time.Second)
			if old.Calls != callsAtReset {
				r.fail = stat.Failf("C17/reader/old-source-read-after-reset-returned", "%s: %d Read call(s) on the previous source after Reset had returned (it had been asked %d times before, %d of its %d bytes consumed then)", where, old.Calls-callsAtReset, callsAtReset, old.Consumed(), len(old.Data))
				return
			}
			r.abandons = false // Reset drains the pipeline of whatever stream was abandoned before
			state, out, epoch, handled = rsFresh, nil, nil, 0
			epochConc = conc
			continue
		}
		before := src.Consumed()
		res := execROp(rd, src, op, &handled)
		epoch = append(epoch, op)
		// ---- differential: a really fresh Reader fed the same epoch must behave identically
		{
			fsrc := &inst.Source{Data: frames[cur]}
			frd := lz4.NewReader(fsrc)
			fh := 0
			_ = frd.Apply(lz4.ConcurrencyOption(epochConc)) // "a new one with the same options"
			var fres opResult
			for _, eop := range epoch {
				fres = execROp(frd, fsrc, eop, &fh)
			}
			if epochConc > 1 || conc > 1 {
				// do not leave the replica's pipeline goroutines blocked mid-stream
				drain := make([]byte, 1<<16)
				for k := 0; k < 1<<12; k++ {
					if _, err := frd.Read(drain); err != nil {
						break
					}
				}
				// a replica whose epoch ended in a rejected call cannot be read any more: Reset winds its pipeline down
				// (without this the replica's own goroutines were reported as the tested object's leak: DESIGN.md section 11)
				frd.Reset(bytes.NewReader(nil))
			}
			same := fres.N == res.N && fres.Err == res.Err && bytes.Equal(fres.Bytes, res.Bytes) && fres.Size == res.Size
			if (conc == 1 || valid) && fres.Consumed != res.Consumed {
				// (concurrent objects: the read-ahead at rest shows whether the concurrency option is still in force)
				same = false
			}
			if conc > 1 && !valid && op.Op == "read" {
				// how much of a malformed frame a concurrent Reader delivers before reporting the error depends on scheduling
				same = true
			}
			if !same {
				r.fail = stat.Failf("C17/reader/reused-object-differs-from-fresh-object/"+op.Op, "%s: reused Reader: n=%d err=%s size=%d consumed=%d (%d bytes); fresh Reader on the same epoch: n=%d err=%s size=%d consumed=%d (%d bytes)",
					where, res.N, res.Err, res.Size, res.Consumed, len(res.Bytes), fres.N, fres.Err, fres.Size, fres.Consumed, len(fres.Bytes))
				return
			}
			if i > len(epoch) {
				class("differential/after-a-reset")
			}
		}
		// ---- model
		switch op.Op {
		case "apply":
			if state == rsFresh {
				if res.Err != "nil" {
					r.fail = stat.Failf("C17/reader/apply-fails-on-fresh-object", "%s: %s", where, res.Err)
					return
				}
				conc = concOf(op.Conc)
				handlerOn = true
			} else {
				class("misuse/apply-after-first-read")
				if state == rsReading && conc > 1 {
					// the rejected call leaves the object in its error state mid-stream: the stream cannot be
					// drained any more, which is the abandoned-epoch situation (not judged)
					r.abandons = true
				}
				state = rsErrored
			}
		case "size":
			want := 0
			if state == rsReading || state == rsEOF {
				if valid && fr.HasSize {
					want = int(fr.Size)
				}
			}
			if valid && state != rsErrored && res.Size != want {
				r.fail = stat.Failf("C17/reader/size-wrong-in-"+rsNames[state]+"-state", "%s: Size()=%d want %d", where, res.Size, want)
				return
			}
		case "read":
			switch state {
			case rsFresh, rsReading:
				if !valid {
					if res.Err != "nil" && res.Err != "EOF" {
						state = rsErrored
					} else if res.Err == "EOF" {
						state = rsEOF
						eofConsumed = src.Consumed()
					} else {
						state = rsReading
					}
					break
				}
				out = append(out, res.Bytes...)
				if !bytes.HasPrefix(fr.Content, out) {
					r.fail = stat.Failf("C17/reader/read-returns-wrong-bytes", "%s: %d bytes delivered so far, first difference with the content at %d", where, len(out), firstDiff(out, fr.Content))
					return
				}
				switch res.Err {
				case "nil":
					state = rsReading
				case "EOF":
					if len(out) != len(fr.Content) {
						r.fail = stat.Failf("C17/reader/end-of-stream-before-all-content", "%s: io.EOF after %d of %d bytes", where, len(out), len(fr.Content))
						return
					}
					state = rsEOF
					eofConsumed = src.Consumed()
					if eofConsumed != fr.Consumed {
						r.fail = stat.Failf("C17/reader/consumed-beyond-the-frame", "%s: at the end of the stream %d source bytes were consumed, the frame has %d", where, eofConsumed, fr.Consumed)
						return
					}
					if handlerOn && handled != len(out) {
						r.fail = stat.Failf("C17/reader/on-block-done-counts-do-not-add-up", "%s: handler saw %d bytes, %d delivered", where, handled, len(out))
						return
					}
					class("epoch/valid-frame-read-to-eof")
				default:
					r.fail = stat.Failf("C17/reader/legal-read-fails/"+res.Err, "%s: (%d, %s)", where, res.N, res.Err)
					return
				}
			case rsEOF:
				class("misuse/read-after-eof")
				if res.N != 0 || (res.Err != "EOF" && !(op.N == 0 && res.Err == "nil")) { // a zero-length Read may return (0, nil)
					r.fail = stat.Failf("C17/reader/read-after-end-of-stream-is-not-(0,EOF)", "%s: (%d, %s)", where, res.N, res.Err)
					return
				}
				if src.Consumed() != eofConsumed {
					r.fail = stat.Failf("C17/reader/read-after-end-of-stream-consumes-source", "%s: source position moved from %d to %d", where, eofConsumed, src.Consumed())
					return
				}
			}
		case "writetofail":
			// a failing destination ends the call mid-stream: the object is in its error state until Reset
			class("misuse/writeto-with-a-failing-destination")
			if res.Err == "injected" {
				if conc > 1 {
					r.abandons = true
				}
				state = rsErrored
			} else if state == rsFresh && valid && res.Err == "nil" {
				// the destination was never called N times: an ordinary WriteTo
				if !bytes.Equal(res.Bytes, fr.Content) {
					r.fail = stat.Failf("C17/reader/writeto-on-fresh-object-wrong/"+res.Err, "%s: %d bytes written, content has %d", where, len(res.Bytes), len(fr.Content))
					return
				}
				state = rsEOF
				eofConsumed = src.Consumed()
			} else {
				state = rsErrored
				if conc > 1 {
					r.abandons = true
				}
			}
		case "writeto":
			switch state {
			case rsFresh:
				if !valid {
					state = rsErrored
					if res.Err == "nil" {
						state = rsEOF
						eofConsumed = src.Consumed()
					}
					break
				}
				if res.Err != "nil" || !bytes.Equal(res.Bytes, fr.Content) || res.N != int64(len(fr.Content)) {
					r.fail = stat.Failf("C17/reader/writeto-on-fresh-object-wrong/"+res.Err, "%s: n=%d err=%s, %d bytes written, content has %d", where, res.N, res.Err, len(res.Bytes), len(fr.Content))
					return
				}
				state = rsEOF
				eofConsumed = src.Consumed()
				class("epoch/valid-frame-writeto")
			case rsReading:
				class("misuse/writeto-after-read")
				if res.Err != "nil" {
					if len(res.Bytes) != 0 || (conc == 1 && src.Consumed() != before) {
						r.fail = stat.Failf("C17/reader/rejected-writeto-has-effects", "%s: wrote %d bytes, source moved %d", where, len(res.Bytes), src.Consumed()-before)
						return
					}
					if conc > 1 {
						r.abandons = true
					}
					state = rsErrored
				} else if valid {
					out = append(out, res.Bytes...)
					if !bytes.Equal(out, fr.Content) {
						r.fail = stat.Failf("C17/reader/writeto-after-read-loses-data", "%s: %d bytes in total, content has %d", where, len(out), len(fr.Content))
						return
					}
					state = rsEOF
					eofConsumed = src.Consumed()
				}
			case rsEOF:
				class("misuse/writeto-after-eof")
				if len(res.Bytes) != 0 {
					r.fail = stat.Failf("C17/reader/writeto-after-end-of-stream-writes", "%s: %d bytes written", where, len(res.Bytes))
					return
				}
				if src.Consumed() != eofConsumed {
					r.fail = stat.Failf("C17/reader/writeto-after-end-of-stream-consumes-source", "%s: source moved from %d to %d", where, eofConsumed, src.Consumed())
					return
				}
			}
		}
	}
	// epilogue: drain, so that the leak verdict is meaningful
	r.cur, r.curDesc = len(c.Ops), "epilogue-drain-in-"+rsNames[state]+"-state"
	if state == rsFresh || state == rsReading {
		buf := make([]byte, 1<<16)
		for k := 0; k < 1<<12; k++ {
			if _, err := rd.Read(buf); err != nil {
				break
			}
		}
	}
}

func runC17R(c c17RCase, rec *stat.Rec) *stat.Failure {
	if !inst.BubbleSupported {
		return stat.Failf("harness-problem", "C17 must be built with Go >= 1.25 (testing/synctest)")
	}
	if len(c.Frames) == 0 {
		return nil
	}
	rec.Eval()
	r := &rRun{}
	restore := setSchedule(c.Sched)
	verdict, detail := inst.RunBubble(bubbleT, func() { r.run(c) })
	restore()
	if r.fail != nil {
		return r.fail
	}
	switch verdict {
	case "deadlock":
		return stat.Failf("C17/reader/call-never-returns/"+r.curDesc, "op %d of %v never returns: %s", r.cur, c.Ops, detail)
	case "leak":
		if r.abandons {
			rec.Class("reader/abandoned_epoch/leak-not-judged")
			break
		}
		return stat.Failf("C17/reader/goroutines-left-blocked", "history %v: %s", c.Ops, detail)
	case "panic":
		return stat.Failf("C17/reader/panic/"+r.curDesc, "op %d of %v: %s", r.cur, c.Ops, detail)
	}
	for _, cl := range r.classes {
		rec.Class("reader/" + cl)
	}
	for _, f := range c.Frames {
		rec.Class("reader/frame/" + f.Kind)
	}
	nt := false
	for i, op := range c.Ops {
		if op.Op == "reset" && i > 0 {
			nt = true
		}
	}
	for _, cl := range r.classes {
		if cl == "misuse/read-after-eof" || cl == "misuse/writeto-after-eof" {
			nt = true
		}
	}
	if nt {
		rec.NonTrivial(stat.FP("r", fmt.Sprint(c.Ops), fmt.Sprint(c.Frames), fmt.Sprint(c.Sched)))
		rec.Class("reader/nontrivial")
	}
	rec.Sample(map[string]interface{}{"object": "Reader", "frames": frameKinds(c.Frames), "history": fmt.Sprint(c.Ops)})
	return nil
}

func frameKinds(fs []rFrame) []string {
	var k []string
	for _, f := range fs {
		s := f.Kind
		if f.Kind == "writer" {
			s = fmt.Sprintf("writer(%s,n=%d)", f.Opts, f.N)
		}
		if f.Trail > 0 {
			s += "+trailing"
		}
		k = append(k, s)
	}
	return k
}

// badOffsetSpec: an independent-block frame whose first match reaches before the start of
// its block: malformed, but a Reader that kept the window of an earlier dependent-block
// frame would decode it.
func badOffsetSpec(contentSum bool) *gen.FrameSpec {
	return &gen.FrameSpec{Version: 1, BlockIndep: true, ContentSum: false && contentSum, BSCode: 4, Blocks: []gen.BlockSpec{{Seqs: []gen.SeqSpec{
		{LitN: 1, LitSeed: 1, LitKind: "text", Off: 5, MLen: 4}, {LitN: 5, LitSeed: 2, LitKind: "text"}}}}}
}

func drawRFrame(t *rapid.T) rFrame {
	var f rFrame
	switch rapid.IntRange(0, 9).Draw(t, "fkind") {
	case 0, 1, 2, 3:
		f.Kind = "writer"
		f.Opts = drawWopts(t, false, 3)
		f.Opts.Conc = 1
		f.N = rapid.SampledFrom([]int{0, 1, 100, 12000, 65536, 70000, 200000}).Draw(t, "n")
		f.Seed = rapid.Uint64Range(1, 50).Draw(t, "seed")
	case 4, 5, 6:
		f.Kind = "enc"
		spec := gen.DrawFrameSpec(t, gen.FrameParams{Dependent: 2, MaxBlocks: 5, MaxBlockLen: 30000})
		f.Spec = &spec
	case 7:
		f.Kind = "badoffset"
		f.Spec = badOffsetSpec(false)
		if rapid.Bool().Draw(t, "nothing?") {
			f = rFrame{Kind: "nothing", N: rapid.IntRange(0, 2).Draw(t, "nskips")}
			return f
		}
	default:
		f.Kind = "mutated"
		f.Opts = drawWopts(t, false, 0)
		f.Opts.Conc = 1
		f.N = rapid.SampledFrom([]int{100, 70000, 200000}).Draw(t, "n")
		f.Seed = rapid.Uint64Range(1, 50).Draw(t, "seed")
		f.Mut = &mutation{Op: "xor", Off: rapid.IntRange(4, 400).Draw(t, "mutoff"), Val: byte(1 << uint(rapid.IntRange(0, 7).Draw(t, "bit")))}
	}
	if rapid.IntRange(0, 2).Draw(t, "trail?") == 0 {
		f.Trail = rapid.SampledFrom([]int{1, 4, 7, 30}).Draw(t, "trail")
	}
	return f
}

// drawC17RReuse: a concurrent Reader that is Reset again and again, often before the end of the stream (after a
// zero-length Read, which already starts the pipeline, or after one partial Read), with hook-site delays that make
// the goroutines of the abandoned stream linger while the next stream is being read.
func drawC17RReuse(t *rapid.T) c17RCase {
	var c c17RCase
	nf := rapid.IntRange(1, 3).Draw(t, "nframes")
	for i := 0; i < nf; i++ {
		f := rFrame{Kind: "writer", Opts: wopts{BS: 4, BlockSum: rapid.Bool().Draw(t, "bsum"), ContentSum: rapid.IntRange(0, 3).Draw(t, "csum") != 0, Size: rapid.Bool().Draw(t, "size"), Conc: 1},
			N: rapid.SampledFrom([]int{0, 1, 100, 70000, 200000, 400000}).Draw(t, "n"), Seed: rapid.Uint64Range(1, 50).Draw(t, "seed")}
		if rapid.IntRange(0, 3).Draw(t, "trail?") == 0 {
			f.Trail = 7
		}
		c.Frames = append(c.Frames, f)
	}
	c.Ops = append(c.Ops, rOp{Op: "apply", Conc: rapid.SampledFrom([]int{2, 4}).Draw(t, "conc")})
	for e := rapid.IntRange(2, 6).Draw(t, "epochs"); e > 0; e-- {
		switch rapid.IntRange(0, 5).Draw(t, "how") {
		case 0:
			c.Ops = append(c.Ops, rOp{Op: "read", N: 0})
		case 1:
			c.Ops = append(c.Ops, rOp{Op: "read", N: rapid.SampledFrom([]int{1, 4095, 65536}).Draw(t, "partial")})
		case 2:
			if rapid.Bool().Draw(t, "wtfail") {
				c.Ops = append(c.Ops, rOp{Op: "writetofail", N: rapid.IntRange(1, 3).Draw(t, "wtfailat")})
			} else {
				c.Ops = append(c.Ops, rOp{Op: "writeto"})
			}
		case 3:
			c.Ops = append(c.Ops, rOp{Op: "size"}, rOp{Op: "read", N: 0})
		default:
			c.Ops = append(c.Ops, rOp{Op: "read", N: 1 << 20}, rOp{Op: "read", N: 1 << 20}, rOp{Op: "read", N: 7})
		}
		c.Ops = append(c.Ops, rOp{Op: "reset", Frame: rapid.IntRange(0, nf-1).Draw(t, "frame")})
	}
	c.Ops = append(c.Ops, rOp{Op: "read", N: 1 << 20}, rOp{Op: "read", N: 1 << 20}, rOp{Op: "read", N: 4095}, rOp{Op: "size"})
	c.Sched = rapid.SliceOfN(rapid.SampledFrom([]int{0, 0, 5, 50, 500, 5000}), 1, 23).Draw(t, "sched")
	return c
}

func drawC17R(t *rapid.T) c17RCase {
	if rapid.IntRange(0, 3).Draw(t, "mode") == 0 {
		return drawC17RReuse(t)
	}
	var c c17RCase
	nf := rapid.IntRange(1, 4).Draw(t, "nframes")
	for i := 0; i < nf; i++ {
		c.Frames = append(c.Frames, drawRFrame(t))
	}
	n := rapid.IntRange(1, pick(16, 40)).Draw(t, "nops")
	for i := 0; i < n; i++ {
		var op rOp
		switch k := rapid.IntRange(0, 19).Draw(t, "rop"); {
		case k <= 9:
			op.Op = "read"
			op.N = rapid.SampledFrom([]int{0, 1, 7, 4095, 65535, 65536, 65537, 1 << 20}).Draw(t, "rn")
		case k == 10:
			op.Op = "writeto"
		case k == 11:
			op.Op = "writeto"
			if rapid.Bool().Draw(t, "wtfail") {
				op.Op, op.N = "writetofail", rapid.IntRange(1, 3).Draw(t, "wtfailat")
			}
		case k <= 13:
			op.Op = "size"
		case k <= 15:
			op.Op = "apply"
			op.Conc = rapid.SampledFrom([]int{1, 2, 4}).Draw(t, "conc")
		default:
			op.Op = "reset"
			op.Frame = rapid.IntRange(0, nf-1).Draw(t, "frame")
		}
		c.Ops = append(c.Ops, op)
	}
	if rapid.Bool().Draw(t, "sched?") {
		c.Sched = rapid.SliceOfN(rapid.SampledFrom([]int{0, 0, 1, 2, 5, 50}), 1, 17).Draw(t, "sched")
	}
	return c
}

func init() { register("C17", "C17/reader", runC17R) }

func TestC17Reader(t *testing.T) {
	bubbleT = t
	rec := stat.For("C17")
	rec.SetRule(c17Rule)
	rec.Require("reader/nontrivial", "reader/misuse/writeto-with-a-failing-destination", "reader/misuse/read-after-eof", "reader/reuse/reset-after-eof", "reader/misuse/reset-mid-stream", "reader/misuse/writeto-after-read", "reader/differential/after-a-reset", "reader/frame/enc", "reader/frame/badoffset", "reader/frame/mutated", "reader/epoch/valid-frame-read-to-eof", "reader/epoch/valid-frame-writeto")
	checkProp(t, "C17", "C17/reader", pick(2500, 80000), drawC17R, runC17R)
}

// TestC17ReaderExhaustive: every sequence of <= 4 (5) calls over a 10-call alphabet on a
// fixed set of frames (modern with checksums+size, dependent-block, legacy, malformed).
func TestC17ReaderExhaustive(t *testing.T) {
	bubbleT = t
	rec := stat.For("C17")
	rec.SetRule(c17Rule)
	dep := gen.FrameSpec{Version: 1, BlockIndep: false, ContentSum: true, BSCode: 4, Blocks: []gen.BlockSpec{
		{Seqs: []gen.SeqSpec{{LitN: 40, LitSeed: 1, LitKind: "text"}}},
		{Seqs: []gen.SeqSpec{{LitN: 2, LitSeed: 2, LitKind: "text", Off: 30, MLen: 20}, {LitN: 6, LitSeed: 3, LitKind: "text"}}}}}
	frames := []rFrame{
		{Kind: "writer", Opts: wopts{BS: 4, BlockSum: true, ContentSum: true, Size: true, Conc: 1}, N: 70000, Seed: 1, Trail: 7},
		{Kind: "enc", Spec: &dep},
		{Kind: "writer", Opts: wopts{BS: 4, Conc: 1, Legacy: true}, N: 3000, Seed: 2},
		{Kind: "badoffset", Spec: badOffsetSpec(false)},
		{Kind: "nothing", N: 1},
	}
	alphabet := []rOp{{Op: "read", N: 1}, {Op: "read", N: 65536}, {Op: "read", N: 1 << 20}, {Op: "writeto"}, {Op: "size"},
		{Op: "apply", Conc: 2}, {Op: "reset", Frame: 0}, {Op: "reset", Frame: 1}, {Op: "reset", Frame: 2}, {Op: "reset", Frame: 3}, {Op: "reset", Frame: 4}}
	maxLen := pick(4, 5)
	var seq []rOp
	count := 0
	var rec1 func(depth int)
	rec1 = func(depth int) {
		if len(seq) > 0 {
			for start := 0; start < 2; start++ {
				count++
				if count%nshards != shard {
					continue
				}
				fs := frames
				if start == 1 {
					fs = []rFrame{frames[1], frames[0], frames[2], frames[3]}
				}
				pinned(t, "C17", "C17/reader", c17RCase{Frames: fs, Ops: append([]rOp(nil), seq...)}, runC17R)
			}
		}
		if depth == maxLen || t.Failed() {
			return
		}
		for _, op := range alphabet {
			seq = append(seq, op)
			rec1(depth + 1)
			seq = seq[:len(seq)-1]
		}
	}
	rec1(0)
	rec.SetExtra("reader_sequences_enumerated", count/nshards)
}

// genIndepSpec draws a valid frame with independent blocks (so that a concurrent Reader
// really decodes concurrently), including empty and raw blocks.
func genIndepSpec(t *rapid.T) *gen.FrameSpec {
	spec := gen.DrawFrameSpec(t, gen.FrameParams{Dependent: 0, MaxBlocks: 12, MaxBlockLen: 60000})
	return &spec
}
