//go:build noasm

package props

func init() { isNoasmBuild = true }
