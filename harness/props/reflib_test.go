package props

import (
	"bufio"
	"bytes"
	"encoding/binary"
	"io"
	"os"
	"os/exec"
	"sync"
	"testing"

	"pgregory.net/rapid"

	"verifharness/gen"
	"verifharness/ref"
	"verifharness/stat"
)

// The reference library (optional): liblz4's LZ4_decompress_safe_usingDict in a child process (tools/lz4ref.c, built by the
// driver when gcc, lz4.h and liblz4 are on the machine; VERIF_LZ4REF is empty otherwise and every comparison is skipped).

var (
	refLibMu   sync.Mutex
	refLibOnce sync.Once
	refLibIn   io.WriteCloser
	refLibOut  *bufio.Reader
)

func refLibStart() {
	path := os.Getenv("VERIF_LZ4REF")
	if path == "" {
		return
	}
	cmd := exec.Command(path)
	in, err1 := cmd.StdinPipe()
	out, err2 := cmd.StdoutPipe()
	if err1 != nil || err2 != nil || cmd.Start() != nil {
		return
	}
	refLibIn, refLibOut = in, bufio.NewReaderSize(out, 1<<20)
}

// refLibDecode decodes src with the reference library into a destination of exactly dstCap bytes. ok is false when the
// reference library is not available.
func refLibDecode(src []byte, dstCap int, dict []byte) (n int, out []byte, ok bool) {
	refLibOnce.Do(refLibStart)
	if refLibIn == nil {
		return 0, nil, false
	}
	refLibMu.Lock()
	defer refLibMu.Unlock()
	var h [12]byte
	binary.LittleEndian.PutUint32(h[0:], uint32(len(src)))
	binary.LittleEndian.PutUint32(h[4:], uint32(dstCap))
	binary.LittleEndian.PutUint32(h[8:], uint32(len(dict)))
	if _, err := refLibIn.Write(append(append(h[:], src...), dict...)); err != nil {
		return 0, nil, false
	}
	var r [4]byte
	if _, err := io.ReadFull(refLibOut, r[:]); err != nil {
		return 0, nil, false
	}
	n = int(int32(binary.LittleEndian.Uint32(r[:])))
	if n > 0 {
		out = make([]byte, n)
		if _, err := io.ReadFull(refLibOut, out); err != nil {
			return 0, nil, false
		}
	}
	return n, out, true
}

// endRulesOK: the end-of-block rules the reference decoder relies on (a block with matches ends in >= 5 literals and its last
// match starts >= 12 bytes before the end).
func endRulesOK(res ref.BlockResult, decoded int) bool {
	nm, lastM := 0, -1
	for i, q := range res.Seqs {
		if q.HasMatch {
			nm++
			lastM = i
		}
	}
	if nm == 0 {
		return true
	}
	last := res.Seqs[len(res.Seqs)-1]
	return !last.HasMatch && last.LitLen >= 5 && res.Seqs[lastM].OutPos <= decoded-12
}

// TestC04RefLib validates the oracle of C03/C04/C12 - the independent block decoder - against the reference library on
// grammar-built blocks (valid and hostile, with dictionaries): what the reference decoder says OK to (and which keeps the
// end-of-block rules) liblz4 decodes to the same bytes; what it calls an error (zero offset, offset before the dictionary,
// truncated, too much output) liblz4 rejects. A disagreement is a problem of the harness (exit 2).
func TestC04RefLib(t *testing.T) {
	rec := stat.For("C04")
	if _, _, ok := refLibDecode([]byte{0}, 0, nil); !ok {
		rec.Class("reflib/no-reference-library")
		t.Skip("no reference library")
	}
	if shard != 0 {
		return
	}
	setRapid(pick(20000, 400000), "C04/reflib")
	rapid.Check(t, func(rt *rapid.T) {
		var dict []byte
		if rapid.Bool().Draw(rt, "dict?") {
			dict = make([]byte, rapid.SampledFrom([]int{1, 4, 17, 64, 1000, 65535, 65536, 70000}).Draw(rt, "dictlen"))
			gen.Fill(dict, 77)
		}
		spec := gen.DrawBlockSpec(rt, len(dict), rapid.IntRange(0, 2).Draw(rt, "hostile?") == 0)
		blk := spec.Bytes()
		full := ref.DecodeBlock(blk, 1<<22, dict)
		size := len(full.Out)
		dstCap := size
		switch rapid.IntRange(0, 3).Draw(rt, "dst") {
		case 0:
			dstCap = size + rapid.IntRange(1, 40).Draw(rt, "slack")
		case 1:
			if size > 0 {
				dstCap = size - rapid.IntRange(1, minI(size, 20)).Draw(rt, "short")
			}
		}
		res := ref.DecodeBlock(blk, dstCap, dict)
		if len(dict) > 65536 {
			// the reference library looks at the last 64 KiB of a dictionary only, like the format says
			dict = dict[len(dict)-65536:]
			res = ref.DecodeBlock(blk, dstCap, dict)
		}
		n, out, _ := refLibDecode(blk, dstCap, dict)
		rec.Eval()
		switch res.Kind {
		case ref.OK:
			if !endRulesOK(res, len(res.Out)) {
				rec.Class("reflib/ok-but-breaks-the-end-of-block-rules(not-compared)")
				return
			}
			rec.Class("reflib/compared-ok")
			if n != len(res.Out) || !bytes.Equal(out, res.Out) {
				rt.Fatalf("HARNESS PROBLEM: independent block decoder says OK (%d bytes), liblz4 returns %d: block % x, len(dst)=%d, len(dict)=%d", len(res.Out), n, blk[:minI(len(blk), 80)], dstCap, len(dict))
			}
		case ref.ERR:
			if res.Why == ref.EZeroOffset {
				// the format calls offset 0 invalid (and C04 demands an error); liblz4 1.9.4 does not check it
				rec.Class("reflib/zero-offset(not-compared: the reference library does not check it)")
				return
			}
			rec.Class("reflib/compared-err/" + res.Why)
			if n >= 0 {
				rt.Fatalf("HARNESS PROBLEM: independent block decoder says ERR %s, liblz4 returns %d: block % x, len(dst)=%d, len(dict)=%d", res.Why, n, blk[:minI(len(blk), 80)], dstCap, len(dict))
			}
		default:
			rec.Class("reflib/unspecified-shape(not-compared)")
		}
	})
	t.Logf("reference library: %d OK blocks and %d error blocks compared", rec.ClassCount("reflib/compared-ok"), func() int64 {
		var k int64
		for _, w := range []string{ref.EZeroOffset, ref.EOffsetBefore, ref.ETruncated, ref.EOutputTooBig} {
			k += rec.ClassCount("reflib/compared-err/" + w)
		}
		return k
	}())
}
