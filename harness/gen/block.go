package gen

import (
	"pgregory.net/rapid"
)

// Block grammar: sequences (token, extended lengths, literals, offset, extended match
// length) with the length / offset / overlap / dictionary classes of C03/C04.

type BSeq struct {
	Lit      int    `json:"lit"`
	LitSeed  uint64 `json:"lits,omitempty"`
	HasMatch bool   `json:"m,omitempty"`
	Off      int    `json:"off,omitempty"`  // written as is (0 and out-of-window values are allowed: hostile)
	MLen     int    `json:"mlen,omitempty"` // >= 4
}

type BlockSpec2 struct {
	Seqs      []BSeq `json:"seqs"`
	EndNibble int    `json:"endnibble,omitempty"` // match nibble of the final literals-only token (hostile when != 0)
	Truncate  int    `json:"truncate,omitempty"`  // > 0: keep only this many bytes of the serialised block
	NoFinal   bool   `json:"nofinal,omitempty"`   // omit the final literals-only sequence (block ends right after a match)
}

func putLenBytes(b []byte, n int) []byte {
	for ; n >= 255; n -= 255 {
		b = append(b, 255)
	}
	return append(b, byte(n))
}

// Bytes serialises the block.
func (s BlockSpec2) Bytes() []byte {
	var b []byte
	for i, q := range s.Seqs {
		last := i == len(s.Seqs)-1
		tok := byte(0)
		if q.Lit >= 15 {
			tok = 0xF0
		} else {
			tok = byte(q.Lit) << 4
		}
		ml := q.MLen - 4
		if q.HasMatch {
			if ml >= 15 {
				tok |= 0x0F
			} else if ml >= 0 {
				tok |= byte(ml)
			}
		} else if last {
			tok |= byte(s.EndNibble & 15)
		}
		b = append(b, tok)
		if q.Lit >= 15 {
			b = putLenBytes(b, q.Lit-15)
		}
		lit := make([]byte, q.Lit)
		Fill(lit, q.LitSeed)
		for j := range lit {
			lit[j] = 'a' + lit[j]%26
		}
		b = append(b, lit...)
		if q.HasMatch {
			b = append(b, byte(q.Off), byte(q.Off>>8))
			if ml >= 15 {
				b = putLenBytes(b, ml-15)
			}
		}
	}
	if s.Truncate > 0 && s.Truncate < len(b) {
		b = b[:s.Truncate]
	}
	return b
}

var (
	bLitLens   = []int{0, 0, 1, 2, 3, 13, 14, 15, 16, 17, 18, 30, 31, 32, 33, 47, 48, 49, 15 + 254, 15 + 255, 15 + 256, 15 + 510, 15 + 511, 1000}
	bMatchLens = []int{4, 5, 6, 8, 15, 16, 17, 18, 19, 20, 31, 32, 33, 34, 19 + 254, 19 + 255, 19 + 256, 19 + 510, 19 + 511, 1000}
	bTailLits  = []int{0, 1, 2, 3, 4, 5, 6, 7, 8, 11, 12, 13, 15, 16, 17, 18, 19, 31, 32, 33, 47, 48, 49}
)

// DrawBlockSpec draws a block over a dictionary of dictLen bytes. With hostile == false all
// offsets are valid (they may reach into the dictionary); with hostile == true the classes
// {0, di+len(dict)+1, 65535, ...} and structural damage are included.
func DrawBlockSpec(t *rapid.T, dictLen int, hostile bool) BlockSpec2 {
	var s BlockSpec2
	n := rapid.IntRange(0, 7).Draw(t, "nseq")
	di := 0 // output produced so far
	for i := 0; i < n; i++ {
		var q BSeq
		q.Lit = rapid.SampledFrom(bLitLens).Draw(t, "lit")
		if rapid.IntRange(0, 9).Draw(t, "litany") == 0 {
			q.Lit = rapid.IntRange(0, 70).Draw(t, "lit.any")
		}
		q.LitSeed = rapid.Uint64().Draw(t, "lits")
		di += q.Lit
		q.HasMatch = true
		q.MLen = rapid.SampledFrom(bMatchLens).Draw(t, "mlen")
		if rapid.IntRange(0, 9).Draw(t, "mlenany") == 0 {
			q.MLen = rapid.IntRange(4, 80).Draw(t, "mlen.any")
		}
		avail := di + dictLen
		cls := rapid.IntRange(0, 11).Draw(t, "offclass")
		switch {
		case cls <= 2:
			q.Off = rapid.SampledFrom([]int{1, 2, 3, 4, 7, 8, 15, 16, 17, 18, 31, 32, 33}).Draw(t, "off.small")
		case cls == 3:
			q.Off = di // start of the output
		case cls == 4:
			q.Off = di + 1 // last byte of the dictionary
		case cls == 5:
			q.Off = avail // first byte of the dictionary
		case cls == 6 && dictLen > 0:
			q.Off = di + rapid.IntRange(1, dictLen).Draw(t, "off.dict") // inside the dictionary
		case cls == 7 && dictLen > 0:
			// straddle: starts in the dictionary, runs into the output
			back := rapid.IntRange(1, minInt(dictLen, 20)).Draw(t, "straddle")
			q.Off = di + back
			if q.MLen <= back {
				q.MLen = back + rapid.IntRange(1, 40).Draw(t, "straddle.more")
			}
		case cls == 8:
			q.Off = rapid.IntRange(1, maxInt(1, avail)).Draw(t, "off.any")
		case cls == 9 && hostile:
			q.Off = rapid.SampledFrom([]int{0, avail + 1, avail + 2, 65535, 65534, 32768}).Draw(t, "off.hostile")
		default:
			q.Off = rapid.IntRange(1, maxInt(1, minInt(avail, 64))).Draw(t, "off.near")
		}
		if !hostile {
			if q.Off < 1 {
				q.Off = 1
			}
			if q.Off > avail {
				q.Off = avail
			}
			if avail == 0 {
				// no byte to copy from yet: make it a literal-only step
				q.HasMatch = false
				if i < n-1 {
					q.HasMatch, q.Off, q.Lit = true, 1, q.Lit+1
					di++
				}
			}
		}
		if q.Off > 65535 {
			q.Off = 65535
		}
		if q.HasMatch {
			di += q.MLen
		}
		s.Seqs = append(s.Seqs, q)
		if !q.HasMatch {
			break
		}
	}
	// final literals-only sequence, with the tail lengths where the wide copies switch paths
	if len(s.Seqs) == 0 || s.Seqs[len(s.Seqs)-1].HasMatch {
		s.Seqs = append(s.Seqs, BSeq{Lit: rapid.SampledFrom(bTailLits).Draw(t, "taillit"), LitSeed: rapid.Uint64().Draw(t, "tails")})
	}
	if hostile {
		switch rapid.IntRange(0, 9).Draw(t, "damage") {
		case 0:
			s.EndNibble = rapid.IntRange(1, 15).Draw(t, "endnibble")
		case 1:
			s.NoFinal = true
			if len(s.Seqs) > 1 {
				s.Seqs = s.Seqs[:len(s.Seqs)-1]
			}
		case 2, 3:
			s.Truncate = rapid.IntRange(1, 1+len(s.Bytes())).Draw(t, "truncate")
		}
	}
	return s
}

func maxInt(a, b int) int {
	if a > b {
		return a
	}
	return b
}
