package gen

import (
	"pgregory.net/rapid"

	"verifharness/ref"
)

// Frame grammar over the independent encoder (ref.EncFrame). Literal bytes are recipes
// (length + seed) so that multi-megabyte frames stay small in replay files.

type SeqSpec struct {
	LitN    int    `json:"litn,omitempty"`
	LitSeed uint64 `json:"lits,omitempty"`
	LitKind string `json:"litk,omitempty"` // rand | text | run
	Off     int    `json:"off,omitempty"`
	MLen    int    `json:"mlen,omitempty"`
}

type BlockSpec struct {
	Raw      bool      `json:"raw,omitempty"`
	RawN     int       `json:"rawn,omitempty"`
	RawSeed  uint64    `json:"raws,omitempty"`
	Seqs     []SeqSpec `json:"seqs,omitempty"`
	SizeWord *uint32   `json:"sizeword,omitempty"`
	SumXor   uint32    `json:"sumxor,omitempty"`
	DropSum  bool      `json:"dropsum,omitempty"`
}

type FrameSpec struct {
	Skips      []ref.EncSkip `json:"skips,omitempty"`
	Version    int           `json:"version"`
	BlockIndep bool          `json:"indep"`
	BlockSum   bool          `json:"blocksum"`
	ContentSum bool          `json:"contentsum"`
	HasSize    bool          `json:"hassize"`
	BSCode     int           `json:"bscode"`
	Blocks     []BlockSpec   `json:"blocks"`
	SizeField  *uint64       `json:"sizefield,omitempty"`
	FLGXor     byte          `json:"flgxor,omitempty"`
	BDXor      byte          `json:"bdxor,omitempty"`
	HCXor      byte          `json:"hcxor,omitempty"`
	NoEndMark  bool          `json:"noendmark,omitempty"`
	CSumXor    uint32        `json:"csumxor,omitempty"`
	DropCSum   bool          `json:"dropcsum,omitempty"`
	MagicWord  *uint32       `json:"magicword,omitempty"`
	Trail      []byte        `json:"trail,omitempty"`
}

func litBytes(n int, seed uint64, kind string) []byte {
	b := make([]byte, n)
	switch kind {
	case "run":
		for i := range b {
			b[i] = byte(seed)
		}
	case "text":
		Fill(b, seed)
		for i := range b {
			b[i] = 'a' + b[i]%4
		}
	default:
		Fill(b, seed)
	}
	return b
}

// Enc expands the spec into the encoder's description.
func (f FrameSpec) Enc() *ref.EncFrame {
	e := &ref.EncFrame{Skips: f.Skips, Version: f.Version, BlockIndep: f.BlockIndep, BlockSum: f.BlockSum, ContentSum: f.ContentSum,
		HasSize: f.HasSize, BSCode: f.BSCode, SizeField: f.SizeField, FLGXor: f.FLGXor, BDXor: f.BDXor, HCXor: f.HCXor,
		NoEndMark: f.NoEndMark, CSumXor: f.CSumXor, DropCSum: f.DropCSum, MagicWord: f.MagicWord, TrailBytes: f.Trail}
	for _, b := range f.Blocks {
		eb := ref.EncBlock{Raw: b.Raw, SizeWord: b.SizeWord, SumXor: b.SumXor, DropSum: b.DropSum}
		if b.Raw {
			eb.RawData = litBytes(b.RawN, b.RawSeed, "rand")
		}
		for _, s := range b.Seqs {
			eb.Seqs = append(eb.Seqs, ref.EncSeq{Lit: litBytes(s.LitN, s.LitSeed, s.LitKind), Offset: s.Off, MatchLen: s.MLen})
		}
		e.Blocks = append(e.Blocks, eb)
	}
	return e
}

// Build returns the frame bytes and the content a conforming decoder must produce.
func (f FrameSpec) Build() ([]byte, []byte) { return f.Enc().Build() }

// FrameParams steers DrawFrameSpec.
type FrameParams struct {
	Dependent   int // 0 never, 1 sometimes, 2 always
	MaxBlocks   int
	MaxBlockLen int // decoded size budget per block (<= block maximum of the drawn code)
	BigBlocks   bool
	Skips       bool
}

var (
	litLens   = []int{0, 0, 1, 2, 3, 5, 14, 15, 16, 17, 30, 255 + 15, 255 + 16, 300}
	matchLens = []int{4, 4, 5, 8, 18, 19, 20, 33, 64, 255 + 19, 255 + 20, 600}
)

// DrawFrameSpec draws a *valid* frame description: every offset stays inside the window
// that the format allows (the block itself for independent blocks, the last 64 KiB of
// content for dependent ones), the last sequence of each block is literals-only, and no
// block decodes to more than the block maximum.
func DrawFrameSpec(t *rapid.T, p FrameParams) FrameSpec {
	var f FrameSpec
	f.Version = 1
	switch p.Dependent {
	case 0:
		f.BlockIndep = true
	case 1:
		f.BlockIndep = rapid.Bool().Draw(t, "indep")
	}
	f.BlockSum = rapid.Bool().Draw(t, "blocksum")
	f.ContentSum = rapid.Bool().Draw(t, "contentsum")
	f.HasSize = rapid.IntRange(0, 3).Draw(t, "hassize") == 0
	f.BSCode = 4
	if p.BigBlocks {
		f.BSCode = rapid.SampledFrom([]int{4, 4, 5, 6, 7}).Draw(t, "bscode")
	}
	blockMax := ref.BlockMaxOfCode(f.BSCode)
	budgetMax := p.MaxBlockLen
	if budgetMax <= 0 || budgetMax > blockMax {
		budgetMax = blockMax
	}
	if p.Skips && rapid.IntRange(0, 4).Draw(t, "skips?") == 0 {
		k := rapid.IntRange(1, 2).Draw(t, "nskips")
		for i := 0; i < k; i++ {
			f.Skips = append(f.Skips, ref.EncSkip{Nibble: rapid.IntRange(0, 15).Draw(t, "nibble"), Data: rapid.SliceOfN(rapid.Byte(), 0, 12).Draw(t, "skipdata")})
		}
	}
	nb := rapid.IntRange(0, p.MaxBlocks).Draw(t, "nblocks")
	total := 0 // content produced so far
	for bi := 0; bi < nb; bi++ {
		var b BlockSpec
		budget := budgetMax
		switch rapid.IntRange(0, 5).Draw(t, "blocklen") {
		case 0:
			budget = rapid.IntRange(0, 40).Draw(t, "budget")
		case 1, 2:
			budget = rapid.IntRange(0, minInt(budgetMax, 2000)).Draw(t, "budget")
		case 3:
			budget = rapid.IntRange(0, budgetMax).Draw(t, "budget")
		}
		if rapid.IntRange(0, 4).Draw(t, "raw?") == 0 {
			b.Raw = true
			b.RawN = budget
			if budget > 0 && rapid.Bool().Draw(t, "rawshort") {
				b.RawN = rapid.IntRange(0, minInt(budget, 300)).Draw(t, "rawn")
			}
			b.RawSeed = rapid.Uint64().Draw(t, "rawseed")
			total += b.RawN
			f.Blocks = append(f.Blocks, b)
			continue
		}
		// a compressed block must not be stored larger than the block maximum: leave room for the
		// token / length-extension / offset bytes (at most 10 sequences)
		if lim := blockMax - blockMax/255 - 96; budget > lim {
			budget = lim
		}
		produced := 0
		noFinal := false
		ns := rapid.IntRange(0, 8).Draw(t, "nseqs")
		for si := 0; si < ns && produced < budget; si++ {
			var s SeqSpec
			s.LitN = rapid.SampledFrom(litLens).Draw(t, "litn")
			if rapid.IntRange(0, 7).Draw(t, "biglit") == 0 {
				s.LitN = rapid.IntRange(0, budget).Draw(t, "litn.big")
			}
			if s.LitN > budget-produced {
				s.LitN = budget - produced
			}
			s.LitSeed = rapid.Uint64().Draw(t, "lits")
			s.LitKind = rapid.SampledFrom([]string{"rand", "text", "run"}).Draw(t, "litk")
			produced += s.LitN
			// window available for a match
			win := produced
			if !f.BlockIndep {
				win = total + produced
			}
			if win > 65535 {
				win = 65535
			}
			room := budget - produced
			if win >= 1 && room >= 4 {
				s.MLen = rapid.SampledFrom(matchLens).Draw(t, "mlen")
				if rapid.IntRange(0, 7).Draw(t, "bigmatch") == 0 {
					s.MLen = rapid.IntRange(4, room).Draw(t, "mlen.big")
				}
				if s.MLen > room {
					s.MLen = room
				}
				switch rapid.IntRange(0, 5).Draw(t, "offclass") {
				case 0:
					s.Off = rapid.SampledFrom([]int{1, 2, 3, 4, 7, 8, 15, 16, 17, 18}).Draw(t, "off")
				case 1:
					s.Off = win // the furthest allowed (65535 when the window is full)
				case 2:
					// reach just across the start of this block (dependent blocks only)
					s.Off = produced + rapid.IntRange(0, 3).Draw(t, "across")
				case 3:
					s.Off = rapid.IntRange(1, win).Draw(t, "off")
				default:
					s.Off = rapid.IntRange(1, minInt(win, 300)).Draw(t, "off")
				}
				if s.Off < 1 {
					s.Off = 1
				}
				if s.Off > win {
					s.Off = win
				}
				produced += s.MLen
			}
			b.Seqs = append(b.Seqs, s)
			if s.Off == 0 {
				// no match was possible: a literals-only sequence can only be the last one of a block
				noFinal = true
				break
			}
		}
		if noFinal {
			total += produced
			f.Blocks = append(f.Blocks, b)
			continue
		}
		// final literals-only sequence
		last := SeqSpec{LitN: rapid.SampledFrom([]int{0, 1, 5, 12, 20}).Draw(t, "lastlit"), LitSeed: rapid.Uint64().Draw(t, "lastseed"), LitKind: "text"}
		if last.LitN > budget-produced {
			last.LitN = budget - produced
		}
		produced += last.LitN
		b.Seqs = append(b.Seqs, last)
		total += produced
		f.Blocks = append(f.Blocks, b)
	}
	return f
}
