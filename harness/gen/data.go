// Package gen holds the structured generators. Every random choice is a rapid draw, so
// cases shrink and replay; bulk bytes are expanded from a drawn 64-bit seed by a fixed
// mixing function so that a case stays a pure function of the rapid bit stream.
package gen

import (
	"pgregory.net/rapid"
)

// Seg is one segment of a data recipe.
type Seg struct {
	K   string `json:"k"`             // rand | text | run | period | copy | count | raw
	N   int    `json:"n"`             // length
	S   uint64 `json:"s,omitempty"`   // seed for rand/text/period contents
	P   int    `json:"p,omitempty"`   // period (period), distance (copy), byte value (run), alphabet (text)
	Raw []byte `json:"raw,omitempty"` // literal bytes (raw)
}

// Data is a recipe for a byte string; it is what replay files store.
type Data struct {
	Segs []Seg `json:"segs"`
}

type sm64 uint64

func (s *sm64) next() uint64 {
	*s += 0x9E3779B97F4A7C15
	z := uint64(*s)
	z = (z ^ (z >> 30)) * 0xBF58476D1CE4E5B9
	z = (z ^ (z >> 27)) * 0x94D049BB133111EB
	return z ^ (z >> 31)
}

// Fill writes pseudo-random bytes derived from seed.
func Fill(b []byte, seed uint64) {
	s := sm64(seed)
	i := 0
	for ; i+8 <= len(b); i += 8 {
		x := s.next()
		b[i], b[i+1], b[i+2], b[i+3] = byte(x), byte(x>>8), byte(x>>16), byte(x>>24)
		b[i+4], b[i+5], b[i+6], b[i+7] = byte(x>>32), byte(x>>40), byte(x>>48), byte(x>>56)
	}
	if i < len(b) {
		x := s.next()
		for ; i < len(b); i++ {
			b[i] = byte(x)
			x >>= 8
		}
	}
}

func (d Data) Len() int {
	n := 0
	for _, s := range d.Segs {
		n += s.N
	}
	return n
}

// Build expands the recipe.
func (d Data) Build() []byte {
	out := make([]byte, 0, d.Len())
	for _, s := range d.Segs {
		if s.N <= 0 {
			continue
		}
		start := len(out)
		out = append(out, make([]byte, s.N)...)
		seg := out[start:]
		switch s.K {
		case "raw":
			copy(seg, s.Raw)
		case "rand":
			Fill(seg, s.S)
		case "text":
			a := s.P
			if a < 2 {
				a = 4
			}
			Fill(seg, s.S)
			for i := range seg {
				seg[i] = 'a' + seg[i]%byte(a)
			}
		case "run":
			for i := range seg {
				seg[i] = byte(s.P)
			}
		case "count":
			for i := range seg {
				seg[i] = byte(int(s.S) + i)
			}
		case "period":
			p := s.P
			if p < 1 {
				p = 1
			}
			if p > len(seg) {
				p = len(seg)
			}
			Fill(seg[:p], s.S)
			for i := p; i < len(seg); i++ {
				seg[i] = seg[i-p]
			}
		case "copy":
			dist := s.P
			if dist < 1 {
				dist = 1
			}
			if dist > start {
				// nothing that far back: fall back to random bytes
				Fill(seg, s.S)
				break
			}
			for i := range seg {
				out[start+i] = out[start+i-dist]
			}
		}
	}
	return out
}

// Describe renders a recipe compactly for evidence samples.
func (d Data) Describe() []map[string]interface{} {
	var r []map[string]interface{}
	for _, s := range d.Segs {
		m := map[string]interface{}{"k": s.K, "n": s.N}
		if s.K == "period" || s.K == "copy" || s.K == "run" || s.K == "text" {
			m["p"] = s.P
		}
		r = append(r, m)
		if len(r) >= 12 {
			r = append(r, map[string]interface{}{"k": "...", "n": len(d.Segs) - 12})
			break
		}
	}
	return r
}

var (
	copyDists = []int{1, 2, 3, 4, 7, 8, 15, 16, 17, 18, 255, 4095, 65534, 65535, 65536, 65537, 131071, 131072, 131073}
	segLens   = []int{0, 1, 2, 3, 4, 5, 6, 7, 8, 9, 10, 11, 12, 13, 14, 15, 16, 17, 18, 19, 20, 254, 255, 256, 257, 258,
		15 + 255 - 1, 15 + 255, 15 + 255 + 1, 19 + 255 - 1, 19 + 255, 19 + 255 + 1, 15 + 510, 19 + 510, 65533, 65534, 65535, 65536, 65537}
)

// DrawSeg draws one segment with length at most maxN.
func DrawSeg(t *rapid.T, maxN int, label string) Seg {
	if maxN < 0 {
		maxN = 0
	}
	var n int
	switch rapid.IntRange(0, 3).Draw(t, label+".lenclass") {
	case 0, 1:
		n = rapid.SampledFrom(segLens).Draw(t, label+".len")
	case 2:
		n = rapid.IntRange(0, 300).Draw(t, label+".len")
	default:
		// log-uniform
		bits := rapid.IntRange(0, 22).Draw(t, label+".lenbits")
		n = rapid.IntRange(0, 1<<uint(bits)).Draw(t, label+".len")
	}
	if n > maxN {
		n = maxN
	}
	s := Seg{N: n}
	switch rapid.IntRange(0, 9).Draw(t, label+".kind") {
	case 0, 1:
		s.K = "rand"
		s.S = rapid.Uint64().Draw(t, label+".seed")
	case 2:
		s.K = "text"
		s.S = rapid.Uint64().Draw(t, label+".seed")
		s.P = rapid.SampledFrom([]int{2, 3, 4, 10, 12, 16, 20, 26, 32}).Draw(t, label+".alpha")
	case 3:
		s.K = "run"
		s.P = rapid.SampledFrom([]int{0, 0, 'a', 0xff, 0x80}).Draw(t, label+".byte")
	case 4:
		s.K = "count"
		s.S = uint64(rapid.IntRange(0, 255).Draw(t, label+".start"))
	case 5, 6:
		s.K = "period"
		s.S = rapid.Uint64().Draw(t, label+".seed")
		s.P = rapid.SampledFrom([]int{1, 2, 3, 4, 5, 7, 8, 12, 13, 16, 17, 64, 255, 256, 4096, 65535, 65536}).Draw(t, label+".period")
	default:
		s.K = "copy"
		s.S = rapid.Uint64().Draw(t, label+".seed")
		if rapid.IntRange(0, 3).Draw(t, label+".distclass") == 0 {
			s.P = rapid.IntRange(1, 140000).Draw(t, label+".dist")
		} else {
			s.P = rapid.SampledFrom(copyDists).Draw(t, label+".dist")
		}
	}
	return s
}

// DrawData draws a data recipe of at most maxLen bytes. Total-length classes: each
// value 0..16, 17..64, 65..4096, 64 KiB +/- 16, (64 KiB, 1 MiB], (1 MiB, maxLen].
func DrawData(t *rapid.T, maxLen int, label string) Data {
	var target int
	cls := rapid.IntRange(0, 11).Draw(t, label+".total")
	switch {
	case cls <= 1:
		target = rapid.IntRange(0, 16).Draw(t, label+".n")
	case cls == 2:
		target = rapid.IntRange(17, 64).Draw(t, label+".n")
	case cls <= 5:
		target = rapid.IntRange(65, 4096).Draw(t, label+".n")
	case cls == 6:
		target = rapid.IntRange(65536-16, 65536+16).Draw(t, label+".n")
	case cls <= 8:
		target = rapid.IntRange(4097, 200000).Draw(t, label+".n")
	case cls == 9:
		target = rapid.IntRange(65537, 1<<20).Draw(t, label+".n")
	default:
		target = rapid.IntRange(1<<20, 4<<20).Draw(t, label+".n")
	}
	if target > maxLen {
		target = maxLen
	}
	if maxLen >= 140000 && rapid.IntRange(0, 5).Draw(t, label+".segedge?") == 0 {
		return drawSegmentEdge(t, label)
	}
	return DrawDataN(t, target, label)
}

// drawSegmentEdge aims at the 64 KiB segment boundaries on which the fast compressor re-bases its 16-bit table
// positions: a long match is made to end within +-2 bytes of position k*65536-1 (so that the search resumes right at
// the boundary) and is followed, after 0..3 bytes, by a short repeat of bytes lying 65534..65538 back.
func drawSegmentEdge(t *rapid.T, label string) Data {
	k := rapid.IntRange(1, 2).Draw(t, label+".k")
	end := k*65536 - 1 + rapid.SampledFrom([]int{0, 0, 0, -1, 1, -2, 2}).Draw(t, label+".enddelta")
	mlen := rapid.SampledFrom([]int{8, 40, 300, 5000}).Draw(t, label+".mlen")
	dist := rapid.SampledFrom([]int{1, 7, 100, 4000}).Draw(t, label+".mdist")
	head := end - mlen
	var d Data
	d.Segs = append(d.Segs, Seg{K: "rand", N: head, S: rapid.Uint64().Draw(t, label+".seed")})
	d.Segs = append(d.Segs, Seg{K: "copy", N: mlen, P: dist, S: 1})
	d.Segs = append(d.Segs, Seg{K: "rand", N: rapid.SampledFrom([]int{0, 1, 2, 2, 3}).Draw(t, label+".gap"), S: rapid.Uint64().Draw(t, label+".gapseed")})
	d.Segs = append(d.Segs, Seg{K: "copy", N: rapid.SampledFrom([]int{4, 5, 6, 8, 20}).Draw(t, label+".rlen"), P: rapid.SampledFrom([]int{65534, 65535, 65536, 65537, 65537, 65538}).Draw(t, label+".rdist"), S: 2})
	d.Segs = append(d.Segs, Seg{K: "rand", N: rapid.IntRange(13, 60).Draw(t, label+".tail"), S: rapid.Uint64().Draw(t, label+".tailseed")})
	return d
}

// DrawDataN draws a recipe of exactly n bytes.
func DrawDataN(t *rapid.T, n int, label string) Data {
	var d Data
	if n <= 64 {
		// small inputs: draw the bytes themselves so that contents shrink
		raw := rapid.SliceOfN(rapid.Byte(), n, n).Draw(t, label+".raw")
		if rapid.Bool().Draw(t, label+".lowalpha") {
			for i := range raw {
				raw[i] = 'a' + raw[i]%3
			}
		}
		d.Segs = []Seg{{K: "raw", N: n, Raw: raw}}
		return d
	}
	left := n
	for left > 0 && len(d.Segs) < 40 {
		s := DrawSeg(t, left, label+".seg")
		if s.N == 0 {
			if rapid.Bool().Draw(t, label+".stop0") {
				s.N = minInt(left, 1)
			} else {
				continue
			}
		}
		d.Segs = append(d.Segs, s)
		left -= s.N
	}
	if left > 0 {
		d.Segs = append(d.Segs, Seg{K: "rand", N: left, S: rapid.Uint64().Draw(t, label+".tailseed")})
	}
	return d
}

func minInt(a, b int) int {
	if a < b {
		return a
	}
	return b
}
