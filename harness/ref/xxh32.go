// Package ref holds independent reference implementations written from the public
// specifications (xxHash, LZ4 block format, LZ4 frame format). Nothing here imports
// the library under test. Everything is deliberately naive.
package ref

const (
	p32_1 uint32 = 0x9E3779B1
	p32_2 uint32 = 0x85EBCA77
	p32_3 uint32 = 0xC2B2AE3D
	p32_4 uint32 = 0x27D4EB2F
	p32_5 uint32 = 0x165667B1
)

func rotl(x uint32, r uint) uint32 { return x<<r | x>>(32-r) }

func rd32(b []byte) uint32 {
	return uint32(b[0]) | uint32(b[1])<<8 | uint32(b[2])<<16 | uint32(b[3])<<24
}

func round32(acc, in uint32) uint32 {
	acc += in * p32_2
	acc = rotl(acc, 13)
	acc *= p32_1
	return acc
}

// XXH32 is the one-shot XXH32 with the given seed, straight from the specification.
func XXH32(b []byte, seed uint32) uint32 {
	n := len(b)
	var h uint32
	p := 0
	if n >= 16 {
		v1 := seed + p32_1 + p32_2
		v2 := seed + p32_2
		v3 := seed
		v4 := seed - p32_1
		for ; p+16 <= n; p += 16 {
			v1 = round32(v1, rd32(b[p:]))
			v2 = round32(v2, rd32(b[p+4:]))
			v3 = round32(v3, rd32(b[p+8:]))
			v4 = round32(v4, rd32(b[p+12:]))
		}
		h = rotl(v1, 1) + rotl(v2, 7) + rotl(v3, 12) + rotl(v4, 18)
	} else {
		h = seed + p32_5
	}
	h += uint32(n)
	return xxhFinal(h, b[p:])
}

func xxhFinal(h uint32, tail []byte) uint32 {
	p := 0
	for ; p+4 <= len(tail); p += 4 {
		h += rd32(tail[p:]) * p32_3
		h = rotl(h, 17) * p32_4
	}
	for ; p < len(tail); p++ {
		h += uint32(tail[p]) * p32_5
		h = rotl(h, 11) * p32_1
	}
	h ^= h >> 15
	h *= p32_2
	h ^= h >> 13
	h *= p32_3
	h ^= h >> 16
	return h
}

// XXH32Stream is the streaming XXH32 (seed 0 unless Seed is set before the first write).
// It keeps the full 64-bit total so totals >= 2^32 are handled as the reference does:
// the lane formula is used as soon as 16 bytes or more were seen in total, and only the
// low 32 bits of the total are added.
type XXH32Stream struct {
	Seed           uint32
	v1, v2, v3, v4 uint32
	total          uint64
	mem            [16]byte
	memN           int
	started        bool
}

func (s *XXH32Stream) init() {
	s.v1 = s.Seed + p32_1 + p32_2
	s.v2 = s.Seed + p32_2
	s.v3 = s.Seed
	s.v4 = s.Seed - p32_1
	s.started = true
}

func (s *XXH32Stream) Reset() { *s = XXH32Stream{Seed: s.Seed} }

func (s *XXH32Stream) Write(b []byte) {
	if !s.started {
		s.init()
	}
	s.total += uint64(len(b))
	for _, c := range b { // byte at a time: obviously right
		s.mem[s.memN] = c
		s.memN++
		if s.memN == 16 {
			s.v1 = round32(s.v1, rd32(s.mem[0:]))
			s.v2 = round32(s.v2, rd32(s.mem[4:]))
			s.v3 = round32(s.v3, rd32(s.mem[8:]))
			s.v4 = round32(s.v4, rd32(s.mem[12:]))
			s.memN = 0
		}
	}
}

// WriteFast is Write for bulk data (16 bytes at a time when aligned); used for the
// multi-GiB cases. Cross-checked against Write by the harness self-test.
func (s *XXH32Stream) WriteFast(b []byte) {
	if !s.started {
		s.init()
	}
	s.total += uint64(len(b))
	for len(b) > 0 {
		if s.memN == 0 && len(b) >= 16 {
			v1, v2, v3, v4 := s.v1, s.v2, s.v3, s.v4
			for len(b) >= 16 {
				v1 = round32(v1, rd32(b[0:]))
				v2 = round32(v2, rd32(b[4:]))
				v3 = round32(v3, rd32(b[8:]))
				v4 = round32(v4, rd32(b[12:]))
				b = b[16:]
			}
			s.v1, s.v2, s.v3, s.v4 = v1, v2, v3, v4
			continue
		}
		s.mem[s.memN] = b[0]
		s.memN++
		b = b[1:]
		if s.memN == 16 {
			s.v1 = round32(s.v1, rd32(s.mem[0:]))
			s.v2 = round32(s.v2, rd32(s.mem[4:]))
			s.v3 = round32(s.v3, rd32(s.mem[8:]))
			s.v4 = round32(s.v4, rd32(s.mem[12:]))
			s.memN = 0
		}
	}
}

func (s *XXH32Stream) Total() uint64 { return s.total }

// ZeroLanesStripe returns the 16 bytes which, written after prefix (len(prefix)%16 == 0, seed 0), leave all four
// accumulators at zero: lane' = rotl(lane + x*prime2, 13) * prime1 is 0 exactly when x = -lane * prime2^-1 (mod 2^32).
// (An implementation that recognises its zero value by "all accumulators are 0" loses everything hashed so far.)
func ZeroLanesStripe(prefix []byte) [16]byte {
	var s XXH32Stream
	s.Write(prefix[:len(prefix)&^15])
	if !s.started {
		s.init()
	}
	inv := uint32(1)
	for i := 0; i < 6; i++ { // Newton iteration: doubles the number of correct low bits each round
		inv *= 2 - p32_2*inv
	}
	var out [16]byte
	for i, lane := range []uint32{s.v1, s.v2, s.v3, s.v4} {
		x := (0 - lane) * inv
		out[4*i], out[4*i+1], out[4*i+2], out[4*i+3] = byte(x), byte(x>>8), byte(x>>16), byte(x>>24)
	}
	return out
}

// Lanes exposes the accumulators (harness self-test of ZeroLanesStripe).
func (s *XXH32Stream) Lanes() [4]uint32 { return [4]uint32{s.v1, s.v2, s.v3, s.v4} }

func (s *XXH32Stream) Sum32() uint32 {
	if !s.started {
		s.init()
	}
	var h uint32
	if s.total >= 16 {
		h = rotl(s.v1, 1) + rotl(s.v2, 7) + rotl(s.v3, 12) + rotl(s.v4, 18)
	} else {
		h = s.Seed + p32_5
	}
	h += uint32(s.total)
	return xxhFinal(h, s.mem[:s.memN])
}

// SolveZero overwrites the last four bytes of b so that XXH32(b, 0) == 0. It needs the
// last step of the hash to be a 4-byte step: len(b)%4 == 0 and len(b)%16 >= 4.
// (The final avalanche maps 0 to 0 and is a bijection; the 4-byte step is affine in the
// word with an odd multiplier, hence invertible.)
func SolveZero(b []byte) bool {
	n := len(b)
	if n%4 != 0 || n%16 < 4 {
		return false
	}
	var h uint32
	p := 0
	if n >= 16 {
		var zero uint32
		v1, v2, v3, v4 := zero+p32_1+p32_2, zero+p32_2, zero, zero-p32_1
		for ; p+16 <= n; p += 16 {
			v1 = round32(v1, rd32(b[p:]))
			v2 = round32(v2, rd32(b[p+4:]))
			v3 = round32(v3, rd32(b[p+8:]))
			v4 = round32(v4, rd32(b[p+12:]))
		}
		h = rotl(v1, 1) + rotl(v2, 7) + rotl(v3, 12) + rotl(v4, 18)
	} else {
		h = p32_5
	}
	h += uint32(n)
	for ; p+4 <= n-4; p += 4 {
		h += rd32(b[p:]) * p32_3
		h = rotl(h, 17) * p32_4
	}
	// need h + w*P3 == 0
	inv := p32_3 // Newton iteration for the inverse of an odd number mod 2^32
	for i := 0; i < 5; i++ {
		inv *= 2 - p32_3*inv
	}
	w := (zero32() - h) * inv
	b[n-4], b[n-3], b[n-2], b[n-1] = byte(w), byte(w>>8), byte(w>>16), byte(w>>24)
	return XXH32(b, 0) == 0
}

func zero32() uint32 { return 0 }
