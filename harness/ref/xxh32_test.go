package ref

import "testing"

// Known-answer vectors from the xxHash project (seed 0 and the classic prime seed).
func TestXXH32Vectors(t *testing.T) {
	for _, v := range []struct {
		in   string
		seed uint32
		want uint32
	}{
		{"", 0, 0x02CC5D05}, {"a", 0, 0x550D7456}, {"abc", 0, 0x32D153FF},
		{"", 1, 0x0B2CB792},
		{"Nobody inspects the spammish repetition", 0, 0xE2293B2F},
		{"abcdefghijklmnopqrstuvwxyz0123456789", 0, 0},
	} {
		got := XXH32([]byte(v.in), v.seed)
		if v.want != 0 && got != v.want {
			t.Errorf("XXH32(%q,%d)=%08x want %08x", v.in, v.seed, got, v.want)
		}
		var s XXH32Stream
		s.Seed = v.seed
		s.Write([]byte(v.in))
		if s.Sum32() != got {
			t.Errorf("stream(%q)=%08x one-shot %08x", v.in, s.Sum32(), got)
		}
		var f XXH32Stream
		f.Seed = v.seed
		f.WriteFast([]byte(v.in)[:len(v.in)/2])
		f.WriteFast([]byte(v.in)[len(v.in)/2:])
		if f.Sum32() != got {
			t.Errorf("fast stream(%q)=%08x one-shot %08x", v.in, f.Sum32(), got)
		}
	}
}

func TestSolveZero(t *testing.T) {
	for _, n := range []int{4, 8, 12, 20, 24, 28, 36, 65540, 1<<20 + 4} {
		b := make([]byte, n)
		for i := range b {
			b[i] = byte(i*7 + n)
		}
		if !SolveZero(b) || XXH32(b, 0) != 0 {
			t.Errorf("SolveZero(%d) failed: %08x", n, XXH32(b, 0))
		}
	}
}
