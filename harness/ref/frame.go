package ref

import "fmt"

// Independent implementation of the LZ4 frame format (lz4_Frame_format.md, v1.6.x),
// including skippable frames and the legacy frame format.

const (
	MagicFrame     uint32 = 0x184D2204
	MagicLegacy    uint32 = 0x184C2102
	MagicSkipFirst uint32 = 0x184D2A50
	MagicSkipLast  uint32 = 0x184D2A5F
	LegacyBlock           = 8 << 20
)

type Mode int

const (
	Strict  Mode = iota // what an emitter must satisfy (C09, C17, C18, C20)
	Lenient             // what a decoder may accept (C05): same integrity rules, no policing of version/reserved/dict-id bits
	Walk                // Lenient without the legacy heuristics (kernel trailer, concatenation): plain block walk, used on flushed prefixes
)

// Field is one entry of the structure map of a parsed byte string.
type Field struct {
	Kind  string `json:"kind"` // magic skipmagic skiplen skipdata flg bd csize dictid hc bsize bdata bsum endmark csum lmagic lbsize lbdata ltrailer
	Off   int    `json:"off"`
	Len   int    `json:"len"`
	Block int    `json:"block"` // block index for block fields, else -1
}

type BlockInfo struct {
	HdrOff  int
	Size    int // stored size
	Raw     bool
	DataOff int
	HasSum  bool
	Sum     uint32
	Decoded int // decoded length
}

type Frame struct {
	Legacy     bool
	SkipFrames int
	FLG, BD    byte
	Version    int
	BlockIndep bool
	BlockSum   bool
	HasSize    bool
	ContentSum bool
	DictID     bool
	Reserved   bool // a reserved bit is set
	BSCode     int
	BlockMax   int
	Size       uint64 // declared content size
	Blocks     []BlockInfo
	Fields     []Field
	Content    []byte
	Consumed   int    // bytes of the input that belong to skippable frames + this frame
	Err        string // "" = accepted, else why it is rejected
	ErrOff     int
	Truncated  bool   // the input ended inside the frame (Err is set too)
	Unspec     string // lenient mode: a block fell into an UNSPEC class of the block reference
	OutOfDom   string // lenient mode: descriptor uses features the properties do not rule on
	EndMark    bool
	NoFrame    bool // the input holds no data frame at all (empty, or skippable frames only)
	Trailer    bool // legacy: kernel-style total-size trailer recognised (lenient only)
	CSum       uint32
	Discard    bool   // do not retain the content (only the last 64 KiB, for dependent blocks); ContentLen still counts it
	ContentLen uint64 // total decoded length
}

func (f *Frame) OK() bool { return f.Err == "" }

func (f *Frame) field(kind string, off, n, blk int) {
	f.Fields = append(f.Fields, Field{Kind: kind, Off: off, Len: n, Block: blk})
}

func (f *Frame) fail(off int, format string, a ...interface{}) *Frame {
	f.Err = fmt.Sprintf(format, a...)
	f.ErrOff = off
	return f
}

func (f *Frame) trunc(off int, what string) *Frame {
	f.Truncated = true
	return f.fail(off, "truncated: input ends %s", what)
}

func le32(b []byte) uint32 { return rd32(b) }

func BlockMaxOfCode(code int) int {
	switch code {
	case 4:
		return 64 << 10
	case 5:
		return 256 << 10
	case 6:
		return 1 << 20
	case 7:
		return 4 << 20
	}
	return 0
}

// ParseFrame parses skippable frames followed by exactly one frame at the start of b.
func ParseFrame(b []byte, mode Mode) *Frame { return parseFrame(b, mode, false) }

// ParseFrameDiscard is ParseFrame for multi-gigabyte contents: the decoded bytes are
// hashed and counted (ContentLen) but not retained.
func ParseFrameDiscard(b []byte, mode Mode) *Frame { return parseFrame(b, mode, true) }

func parseFrame(b []byte, mode Mode, discard bool) *Frame {
	f := &Frame{Discard: discard}
	p := 0
	for {
		if len(b)-p < 4 {
			if len(b)-p == 0 {
				// nothing, or only skippable frames: there is no data frame at all
				f.NoFrame = true
				return f.trunc(p, "before any frame magic number (no data frame)")
			}
			return f.trunc(p, "inside a magic number")
		}
		m := le32(b[p:])
		if m >= MagicSkipFirst && m <= MagicSkipLast {
			f.field("skipmagic", p, 4, -1)
			if len(b)-p < 8 {
				return f.trunc(p+4, "inside a skippable frame size")
			}
			n64 := int64(le32(b[p+4:])) // (64-bit: the harness also runs built for 32-bit platforms)
			f.field("skiplen", p+4, 4, -1)
			if int64(len(b)-p-8) < n64 {
				return f.trunc(p+8, "inside a skippable frame")
			}
			n := int(n64)
			f.field("skipdata", p+8, n, -1)
			p += 8 + n
			f.SkipFrames++
			continue
		}
		switch m {
		case MagicFrame:
			f.field("magic", p, 4, -1)
			return f.parseModern(b, p+4, mode)
		case MagicLegacy:
			f.field("lmagic", p, 4, -1)
			f.Legacy = true
			return f.parseLegacy(b, p+4, mode)
		}
		return f.fail(p, "bad magic number %08x", m)
	}
}

func (f *Frame) parseModern(b []byte, p int, mode Mode) *Frame {
	if len(b)-p < 2 {
		return f.trunc(p, "inside the frame descriptor")
	}
	descStart := p
	f.FLG, f.BD = b[p], b[p+1]
	f.field("flg", p, 1, -1)
	f.field("bd", p+1, 1, -1)
	p += 2
	f.Version = int(f.FLG >> 6)
	f.BlockIndep = f.FLG&0x20 != 0
	f.BlockSum = f.FLG&0x10 != 0
	f.HasSize = f.FLG&0x08 != 0
	f.ContentSum = f.FLG&0x04 != 0
	f.Reserved = f.FLG&0x02 != 0 || f.BD&0x8F != 0
	f.DictID = f.FLG&0x01 != 0
	f.BSCode = int(f.BD>>4) & 7
	f.BlockMax = BlockMaxOfCode(f.BSCode)
	if f.HasSize {
		if len(b)-p < 8 {
			return f.trunc(p, "inside the content size")
		}
		f.Size = uint64(le32(b[p:])) | uint64(le32(b[p+4:]))<<32
		f.field("csize", p, 8, -1)
		p += 8
	}
	if f.DictID {
		// the library under test does not know this field; the spec puts 4 bytes here
		if mode == Strict {
			return f.fail(descStart, "dictionary id flag set")
		}
		f.OutOfDom = "dictionary-id"
		return f.fail(descStart, "out of domain: dictionary id")
	}
	if len(b)-p < 1 {
		return f.trunc(p, "before the header checksum")
	}
	hc := byte(XXH32(b[descStart:p], 0) >> 8)
	f.field("hc", p, 1, -1)
	if b[p] != hc {
		return f.fail(p, "header checksum %02x, expected %02x", b[p], hc)
	}
	p++
	if f.Version != 1 {
		if mode == Strict {
			return f.fail(descStart, "version %d", f.Version)
		}
		f.OutOfDom = "version"
	}
	if f.Reserved {
		if mode == Strict {
			return f.fail(descStart, "reserved bits set (FLG %02x BD %02x)", f.FLG, f.BD)
		}
		if f.OutOfDom == "" {
			f.OutOfDom = "reserved-bits"
		}
	}
	if f.BlockMax == 0 {
		return f.fail(descStart+1, "undefined block maximum size code %d", f.BSCode)
	}
	var hash XXH32Stream
	for bi := 0; ; bi++ {
		if len(b)-p < 4 {
			if len(b)-p == 0 {
				return f.trunc(p, "before a block size / end mark")
			}
			return f.trunc(p, "inside a block size")
		}
		w := le32(b[p:])
		if w == 0 {
			f.field("endmark", p, 4, -1)
			f.EndMark = true
			p += 4
			break
		}
		f.field("bsize", p, 4, bi)
		blk := BlockInfo{HdrOff: p, Size: int(w & 0x7FFFFFFF), Raw: w>>31 != 0, HasSum: f.BlockSum}
		p += 4
		if blk.Size > f.BlockMax {
			return f.fail(blk.HdrOff, "block %d: stored size %d exceeds the block maximum %d", bi, blk.Size, f.BlockMax)
		}
		if len(b)-p < blk.Size {
			return f.trunc(p, fmt.Sprintf("inside block %d", bi))
		}
		blk.DataOff = p
		f.field("bdata", p, blk.Size, bi)
		data := b[p : p+blk.Size]
		p += blk.Size
		if f.BlockSum {
			if len(b)-p < 4 {
				if len(b)-p == 0 {
					return f.trunc(p, fmt.Sprintf("before the checksum of block %d", bi))
				}
				return f.trunc(p, fmt.Sprintf("inside the checksum of block %d", bi))
			}
			blk.Sum = le32(b[p:])
			f.field("bsum", p, 4, bi)
			if want := XXH32(data, 0); blk.Sum != want {
				return f.fail(p, "block %d: checksum %08x, XXH32 of the stored block is %08x", bi, blk.Sum, want)
			}
			p += 4
		}
		var dec []byte
		if blk.Raw {
			dec = data
		} else {
			var dict []byte
			if !f.BlockIndep {
				dict = f.Content
				if len(dict) > 65536 {
					dict = dict[len(dict)-65536:]
				}
			}
			res := DecodeBlock(data, f.BlockMax, dict)
			switch res.Kind {
			case OK:
			case UNSPEC:
				if mode == Strict {
					return f.fail(blk.DataOff, "block %d: %s", bi, res.Why)
				}
				f.Unspec = res.Why
			default:
				return f.fail(blk.DataOff, "block %d: invalid compressed data: %s", bi, res.Why)
			}
			dec = res.Out
		}
		blk.Decoded = len(dec)
		f.ContentLen += uint64(len(dec))
		f.Content = append(f.Content, dec...)
		if f.Discard && len(f.Content) > 65536 {
			f.Content = append(f.Content[:0], f.Content[len(f.Content)-65536:]...)
		}
		hash.WriteFast(dec)
		f.Blocks = append(f.Blocks, blk)
	}
	if f.ContentSum {
		if len(b)-p < 4 {
			if len(b)-p == 0 {
				return f.trunc(p, "before the content checksum")
			}
			return f.trunc(p, "inside the content checksum")
		}
		f.CSum = le32(b[p:])
		f.field("csum", p, 4, -1)
		if want := hash.Sum32(); f.CSum != want {
			return f.fail(p, "content checksum %08x, XXH32 of the content is %08x", f.CSum, want)
		}
		p += 4
	}
	f.Consumed = p
	if f.HasSize && f.Size != f.ContentLen {
		if mode == Strict {
			return f.fail(descStart+2, "declared content size %d, actual %d", f.Size, f.ContentLen)
		}
		if f.OutOfDom == "" {
			f.OutOfDom = "content-size-mismatch"
		}
	}
	return f
}

// parseLegacy: magic, then LE32-size-prefixed compressed blocks, each decoding to exactly
// 8 MiB except the last; the frame ends with the input (or, leniently, with a kernel-style
// trailer holding the total decoded size). The format has no flag bit in the size word.
func (f *Frame) parseLegacy(b []byte, p int, mode Mode) *Frame {
	f.BlockMax = LegacyBlock
	short := false
	for bi := 0; ; bi++ {
		if len(b)-p == 0 {
			break
		}
		if len(b)-p < 4 {
			return f.trunc(p, "inside a legacy block size")
		}
		w := le32(b[p:])
		if mode == Lenient && bi > 0 && uint64(w) == uint64(len(f.Content))&0xFFFFFFFF {
			// (Walk mode never takes a size word for the kernel-style trailer)
			f.field("ltrailer", p, 4, -1)
			f.Trailer = true
			p += 4
			break
		}
		if w == MagicLegacy && mode == Lenient {
			// concatenated legacy frame
			f.field("lmagic", p, 4, -1)
			p += 4
			bi--
			continue
		}
		f.field("lbsize", p, 4, bi)
		if uint64(w) > uint64(BlockBound(LegacyBlock)) {
			return f.fail(p, "legacy block %d: size word %08x is not a block size (compressBound(8 MiB) = %d)", bi, w, BlockBound(LegacyBlock))
		}
		if w == 0 {
			return f.fail(p, "legacy block %d: zero size", bi)
		}
		if short && mode == Strict {
			return f.fail(p, "legacy block %d follows a block that decoded to less than 8 MiB", bi)
		}
		blk := BlockInfo{HdrOff: p, Size: int(w)}
		p += 4
		if len(b)-p < blk.Size {
			return f.trunc(p, fmt.Sprintf("inside legacy block %d", bi))
		}
		blk.DataOff = p
		f.field("lbdata", p, blk.Size, bi)
		res := DecodeBlock(b[p:p+blk.Size], LegacyBlock, nil)
		p += blk.Size
		if res.Kind != OK {
			if mode != Strict && res.Kind == UNSPEC {
				f.Unspec = res.Why
			} else {
				return f.fail(blk.DataOff, "legacy block %d: invalid compressed data: %s %s", bi, res.Kind, res.Why)
			}
		}
		blk.Decoded = len(res.Out)
		if blk.Decoded < LegacyBlock {
			short = true
		}
		f.Content = append(f.Content, res.Out...)
		f.Blocks = append(f.Blocks, blk)
	}
	f.Consumed = p
	return f
}
