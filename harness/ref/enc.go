package ref

// Independent frame *encoder*: frames are built from a structured description, with
// checksums per the specification and with every field overridable for hostile values.
// The expected content is known by construction: the builder executes each sequence as it
// emits it.

type EncSeq struct {
	Lit      []byte `json:"lit,omitempty"`
	Offset   int    `json:"off,omitempty"`  // 0: no match (final sequence of a block)
	MatchLen int    `json:"mlen,omitempty"` // >= 4 when Offset != 0
}

type EncBlock struct {
	Raw     bool     `json:"raw,omitempty"`
	RawData []byte   `json:"rawdata,omitempty"`
	Seqs    []EncSeq `json:"seqs,omitempty"`
	// hostile overrides
	SizeWord *uint32 `json:"sizeword,omitempty"` // replaces the block size word
	SumXor   uint32  `json:"sumxor,omitempty"`   // xor-ed into the block checksum
	DropSum  bool    `json:"dropsum,omitempty"`
}

type EncSkip struct {
	Nibble  int     `json:"nibble"` // magic = 0x184D2A50 + nibble
	Data    []byte  `json:"data,omitempty"`
	LenWord *uint32 `json:"lenword,omitempty"` // announced length override
}

type EncFrame struct {
	Skips      []EncSkip  `json:"skips,omitempty"`
	Version    int        `json:"version"`
	BlockIndep bool       `json:"indep"`
	BlockSum   bool       `json:"blocksum"`
	ContentSum bool       `json:"contentsum"`
	HasSize    bool       `json:"hassize"`
	BSCode     int        `json:"bscode"`
	Blocks     []EncBlock `json:"blocks"`
	// hostile overrides
	SizeField  *uint64 `json:"sizefield,omitempty"` // declared content size override
	FLGXor     byte    `json:"flgxor,omitempty"`
	BDXor      byte    `json:"bdxor,omitempty"`
	HCXor      byte    `json:"hcxor,omitempty"`
	NoEndMark  bool    `json:"noendmark,omitempty"`
	CSumXor    uint32  `json:"csumxor,omitempty"`
	DropCSum   bool    `json:"dropcsum,omitempty"`
	MagicWord  *uint32 `json:"magicword,omitempty"`
	TrailBytes []byte  `json:"trail,omitempty"` // bytes after the frame
}

func put32(b []byte, v uint32) []byte {
	return append(b, byte(v), byte(v>>8), byte(v>>16), byte(v>>24))
}

func putLen(b []byte, n int) []byte {
	for ; n >= 255; n -= 255 {
		b = append(b, 255)
	}
	return append(b, byte(n))
}

// EncodeSeqs serialises sequences into a compressed block and appends the bytes they
// produce to content (prev is the content of the preceding blocks, used as the window of
// dependent blocks; pass nil for independent blocks).
func EncodeSeqs(seqs []EncSeq, prev []byte) (blk []byte, out []byte) {
	for _, s := range seqs {
		lit := len(s.Lit)
		tok := byte(0)
		if lit >= 15 {
			tok = 0xF0
		} else {
			tok = byte(lit) << 4
		}
		ml := 0
		if s.Offset != 0 {
			ml = s.MatchLen - 4
			if ml >= 15 {
				tok |= 0x0F
			} else {
				tok |= byte(ml)
			}
		}
		blk = append(blk, tok)
		if lit >= 15 {
			blk = putLen(blk, lit-15)
		}
		blk = append(blk, s.Lit...)
		out = append(out, s.Lit...)
		if s.Offset == 0 {
			continue
		}
		blk = append(blk, byte(s.Offset), byte(s.Offset>>8))
		if ml >= 15 {
			blk = putLen(blk, ml-15)
		}
		for k := 0; k < s.MatchLen; k++ {
			p := len(out) - s.Offset
			if p >= 0 {
				out = append(out, out[p])
			} else if q := len(prev) + p; q >= 0 {
				out = append(out, prev[q])
			} else {
				out = append(out, 0) // offset before everything: invalid on purpose
			}
		}
	}
	return blk, out
}

// Build serialises the frame; content is what a conforming decoder must produce (only
// meaningful when no hostile override is set).
func (e *EncFrame) Build() (frame []byte, content []byte) {
	var b []byte
	for _, s := range e.Skips {
		b = put32(b, MagicSkipFirst+uint32(s.Nibble&15))
		n := uint32(len(s.Data))
		if s.LenWord != nil {
			n = *s.LenWord
		}
		b = put32(b, n)
		b = append(b, s.Data...)
	}
	magic := MagicFrame
	if e.MagicWord != nil {
		magic = *e.MagicWord
	}
	b = put32(b, magic)
	// blocks first (content size may be needed in the header)
	var body []byte
	var hash XXH32Stream
	for _, blk := range e.Blocks {
		var stored, dec []byte
		if blk.Raw {
			stored, dec = blk.RawData, blk.RawData
		} else {
			var prev []byte
			if !e.BlockIndep {
				prev = content
			}
			stored, dec = EncodeSeqs(blk.Seqs, prev)
		}
		w := uint32(len(stored))
		if blk.Raw {
			w |= 0x80000000
		}
		if blk.SizeWord != nil {
			w = *blk.SizeWord
		}
		body = put32(body, w)
		body = append(body, stored...)
		if e.BlockSum && !blk.DropSum {
			body = put32(body, XXH32(stored, 0)^blk.SumXor)
		}
		content = append(content, dec...)
		hash.WriteFast(dec)
	}
	flg := byte(e.Version&3) << 6
	if e.BlockIndep {
		flg |= 0x20
	}
	if e.BlockSum {
		flg |= 0x10
	}
	if e.HasSize {
		flg |= 0x08
	}
	if e.ContentSum {
		flg |= 0x04
	}
	flg ^= e.FLGXor
	bd := byte(e.BSCode&7)<<4 ^ e.BDXor
	desc := []byte{flg, bd}
	if flg&0x08 != 0 {
		sz := uint64(len(content))
		if e.SizeField != nil {
			sz = *e.SizeField
		}
		desc = put32(desc, uint32(sz))
		desc = put32(desc, uint32(sz>>32))
	}
	b = append(b, desc...)
	b = append(b, byte(XXH32(desc, 0)>>8)^e.HCXor)
	b = append(b, body...)
	if !e.NoEndMark {
		b = put32(b, 0)
	}
	if e.ContentSum && !e.DropCSum {
		b = put32(b, hash.Sum32()^e.CSumXor)
	}
	b = append(b, e.TrailBytes...)
	return b, content
}
