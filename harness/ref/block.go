package ref

import "fmt"

// Verdict of the reference block decoder.
type Kind int

const (
	OK     Kind = iota // well-formed, fits: Out is what the format defines
	ERR                // one of the error classes the properties list: the library must fail
	UNSPEC             // shape the properties do not rule on; if the library succeeds it must return Out
)

func (k Kind) String() string { return [...]string{"OK", "ERR", "UNSPEC"}[k] }

// Error classes (C04).
const (
	EZeroOffset   = "zero-offset"
	EOffsetBefore = "offset-before-dictionary"
	ETruncated    = "truncated-sequence"
	EOutputTooBig = "output-larger-than-destination"
)

// Reasons for UNSPEC.
const (
	UEmpty          = "empty-source"
	UEndsAfterMatch = "block-ends-right-after-a-match"
	UNibbleAtEnd    = "non-zero-match-nibble-at-end-of-block"
)

type Seq struct {
	LitLen   int
	Offset   int // 0 for the final literals-only sequence
	MatchLen int // 0 for the final literals-only sequence (otherwise >= 4)
	ExtLit   int // number of extension bytes of the literal length
	ExtMatch int // number of extension bytes of the match length
	LitPos   int // position in the block of the first literal byte
	OutPos   int // position in the output where the match starts
	TokenPos int
	HasMatch bool
	FromDict int // bytes of the match taken from the dictionary
	Overlap  bool
}

type BlockResult struct {
	Kind Kind
	Why  string // error class or unspec reason
	Out  []byte // decoded bytes (complete for OK; as far as defined for UNSPEC)
	Seqs []Seq  // sequences parsed before the verdict
}

// DecodeBlock decodes an LZ4 block byte by byte, exactly as the block format document
// defines it, into at most dstLen bytes, resolving offsets that reach before the start of
// the output against the end of dict.
func DecodeBlock(src []byte, dstLen int, dict []byte) BlockResult {
	var r BlockResult
	if len(src) == 0 {
		r.Kind, r.Why = UNSPEC, UEmpty
		return r
	}
	out := make([]byte, 0, minInt(dstLen, 1<<16))
	si := 0
	fail := func(why string) BlockResult {
		r.Kind, r.Why, r.Out = ERR, why, out
		return r
	}
	for {
		if si >= len(src) {
			// only reachable right after a match
			r.Kind, r.Why, r.Out = UNSPEC, UEndsAfterMatch, out
			return r
		}
		var s Seq
		s.TokenPos = si
		tok := src[si]
		si++
		lit64 := int64(tok >> 4) // (64-bit sums: the harness also runs built for 32-bit platforms)
		if lit64 == 15 {
			for {
				if si >= len(src) {
					return fail(ETruncated)
				}
				x := src[si]
				si++
				s.ExtLit++
				lit64 += int64(x)
				if x != 255 {
					break
				}
			}
		}
		if int64(si)+lit64 > int64(len(src)) {
			return fail(ETruncated)
		}
		if int64(len(out))+lit64 > int64(dstLen) {
			return fail(EOutputTooBig)
		}
		lit := int(lit64)
		s.LitLen, s.LitPos = lit, si
		out = append(out, src[si:si+lit]...)
		si += lit
		nib := int(tok & 15)
		if si == len(src) {
			r.Seqs = append(r.Seqs, s)
			if nib != 0 {
				r.Kind, r.Why, r.Out = UNSPEC, UNibbleAtEnd, out
				return r
			}
			r.Kind, r.Out = OK, out
			return r
		}
		if si+2 > len(src) {
			return fail(ETruncated)
		}
		off := int(src[si]) | int(src[si+1])<<8
		si += 2
		if off == 0 {
			return fail(EZeroOffset)
		}
		ml64 := int64(nib + 4)
		if nib == 15 {
			for {
				if si >= len(src) {
					return fail(ETruncated)
				}
				x := src[si]
				si++
				s.ExtMatch++
				ml64 += int64(x)
				if x != 255 {
					break
				}
			}
		}
		if off > len(out)+len(dict) {
			return fail(EOffsetBefore)
		}
		if int64(len(out))+ml64 > int64(dstLen) {
			return fail(EOutputTooBig)
		}
		ml := int(ml64)
		s.HasMatch, s.Offset, s.MatchLen, s.OutPos = true, off, ml, len(out)
		s.Overlap = off < ml
		for k := 0; k < ml; k++ {
			p := len(out) - off
			if p < 0 {
				out = append(out, dict[len(dict)+p])
				s.FromDict++
			} else {
				out = append(out, out[p])
			}
		}
		r.Seqs = append(r.Seqs, s)
	}
}

// StrictValidate checks a compressed block against the strictest reading of the block
// format (the end-of-block restrictions that the reference decoder's fast paths rely on).
// It returns "" when the block is strictly valid for a source of srcLen bytes.
func StrictValidate(blk []byte, srcLen int) string {
	res := DecodeBlock(blk, srcLen, nil)
	if res.Kind != OK {
		return fmt.Sprintf("reference decoder: %s %s", res.Kind, res.Why)
	}
	if len(res.Out) != srcLen {
		return fmt.Sprintf("decodes to %d bytes, source has %d", len(res.Out), srcLen)
	}
	seqs := res.Seqs
	last := seqs[len(seqs)-1]
	if last.HasMatch {
		return "final sequence is not literals-only"
	}
	nMatch := 0
	lastMatch := -1
	for i, s := range seqs {
		if !s.HasMatch {
			continue
		}
		nMatch++
		lastMatch = i
		if s.Offset < 1 || s.Offset > 65535 {
			return fmt.Sprintf("offset %d out of range", s.Offset)
		}
		if s.Offset > s.OutPos {
			return fmt.Sprintf("offset %d reaches before the start of the output (pos %d)", s.Offset, s.OutPos)
		}
	}
	if nMatch > 0 {
		if last.LitLen < 5 {
			return fmt.Sprintf("last %d bytes are literals, need 5", last.LitLen)
		}
		if start := seqs[lastMatch].OutPos; start > srcLen-12 {
			return fmt.Sprintf("last match starts at %d, less than 12 bytes before the end (%d)", start, srcLen)
		}
		if srcLen < 13 {
			return "match in a block shorter than 13 bytes"
		}
	}
	return ""
}

func minInt(a, b int) int {
	if a < b {
		return a
	}
	return b
}

// BlockBound is the worst-case compressed size the format guarantees for n bytes,
// as documented for LZ4_compressBound.
func BlockBound(n int) int { return n + n/255 + 16 }

// WalkBlockAgainst checks a block sequence by sequence against the source it is supposed to encode, without building the
// output (sources of gigabytes): literals must equal the source at the current position, every match must have an offset
// within the output so far and reproduce the source there. It returns "" when the block encodes exactly src.
func WalkBlockAgainst(block, src []byte) string {
	pos, i := int64(0), 0
	n := int64(len(src))
	readLen := func(v int64) (int64, bool) {
		if v == 15 {
			for {
				if i >= len(block) {
					return 0, false
				}
				b := block[i]
				i++
				v += int64(b)
				if b != 255 {
					break
				}
			}
		}
		return v, true
	}
	for {
		if i >= len(block) {
			return fmt.Sprintf("block ends without a final literals-only sequence (at source position %d)", pos)
		}
		tok := block[i]
		i++
		l, ok := readLen(int64(tok >> 4))
		if !ok || int64(i)+l > int64(len(block)) {
			return fmt.Sprintf("truncated literal run at source position %d", pos)
		}
		if pos+l > n || string(block[i:i+int(l)]) != string(src[pos:pos+l]) {
			return fmt.Sprintf("literals at source position %d (length %d) differ from the source", pos, l)
		}
		i += int(l)
		pos += l
		if i == len(block) {
			break
		}
		if i+2 > len(block) {
			return fmt.Sprintf("truncated offset at source position %d", pos)
		}
		off := int64(block[i]) | int64(block[i+1])<<8
		i += 2
		m, ok := readLen(int64(tok & 15))
		if !ok {
			return fmt.Sprintf("truncated match length at source position %d", pos)
		}
		m += 4
		if off == 0 || off > pos {
			return fmt.Sprintf("match at source position %d has offset %d", pos, off)
		}
		if pos+m > n {
			return fmt.Sprintf("match at source position %d (length %d) runs past the source (%d)", pos, m, n)
		}
		// compare in pieces (the ranges overlap when off < m; equality of src[pos:pos+m] with src[pos-off:pos-off+m] is what a decoder reproduces)
		for done := int64(0); done < m; {
			k := m - done
			if k > 1<<24 {
				k = 1 << 24
			}
			if string(src[pos+done:pos+done+k]) != string(src[pos-off+done:pos-off+done+k]) {
				return fmt.Sprintf("match at source position %d (offset %d, length %d) does not reproduce the source", pos, off, m)
			}
			done += k
		}
		pos += m
	}
	if pos != n {
		return fmt.Sprintf("block encodes %d bytes, the source has %d", pos, n)
	}
	return ""
}
