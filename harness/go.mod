module verifharness

go 1.23

require (
	github.com/pierrec/lz4/v4 v4.0.0
	pgregory.net/rapid v1.3.0
)

replace github.com/pierrec/lz4/v4 => /repo
