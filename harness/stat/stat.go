// Package stat collects what a check actually covered (evaluations, distinct
// non-trivial cases, class histogram, samples), the known findings that were met and
// excluded, and the violations found, and dumps all of it for the driver.
package stat

import (
	"bufio"
	"encoding/binary"
	"encoding/json"
	"fmt"
	"hash/fnv"
	"os"
	"path/filepath"
	"sort"
	"strings"
	"sync"
)

// Failure is an oracle verdict: the property was violated on a case.
type Failure struct {
	Sig string // short, stable description of the failing call site / shape (never raw bytes)
	Msg string // human readable details
}

func Failf(sig, format string, a ...interface{}) *Failure {
	return &Failure{Sig: sig, Msg: fmt.Sprintf(format, a...)}
}

func (f *Failure) Error() string { return f.Sig + ": " + f.Msg }

type Violation struct {
	Sig    string `json:"sig"`
	Msg    string `json:"msg"`
	Replay string `json:"replay"`
}

type KnownHit struct {
	Sig   string `json:"sig"`
	What  string `json:"what"`
	Count int    `json:"count"`
}

type Rec struct {
	mu                     sync.Mutex
	ID                     string
	Rule                   string
	Evaluations            int64
	fps                    map[uint64]struct{}
	Classes                map[string]int64
	Samples                []interface{}
	maxSamples             int
	Violations             []Violation
	Known                  map[string]*KnownHit
	Extra                  map[string]interface{}
	Exhaustive             bool
	Required               []string // classes that must be non-zero, else the harness is broken
	DistinctByConstruction int64    // enumerated cases that are distinct by construction (index-addressed)
}

var (
	mu   sync.Mutex
	recs = map[string]*Rec{}
)

// For returns the recorder of a property.
func For(id string) *Rec {
	mu.Lock()
	defer mu.Unlock()
	r := recs[id]
	if r == nil {
		r = &Rec{ID: id, fps: map[uint64]struct{}{}, Classes: map[string]int64{}, Known: map[string]*KnownHit{}, Extra: map[string]interface{}{}, maxSamples: 12}
		recs[id] = r
	}
	return r
}

func (r *Rec) SetRule(s string) { r.mu.Lock(); r.Rule = s; r.mu.Unlock() }

// Require names classes that must have been produced at least once by the run.
func (r *Rec) Require(classes ...string) {
	r.mu.Lock()
	r.Required = append(r.Required, classes...)
	r.mu.Unlock()
}

// Eval counts one case executed by the oracle.
func (r *Rec) Eval() { r.mu.Lock(); r.Evaluations++; r.mu.Unlock() }

func (r *Rec) EvalN(n int64) { r.mu.Lock(); r.Evaluations += n; r.mu.Unlock() }

// NonTrivial records the fingerprint of a case that is non-trivial by the rule.
func (r *Rec) NonTrivial(fp uint64) {
	r.mu.Lock()
	if len(r.fps) < 4<<20 {
		r.fps[fp] = struct{}{}
	}
	r.mu.Unlock()
}

// NonTrivialEnumerated counts n non-trivial cases that are distinct by construction
// (members of an index-addressed enumeration), without storing fingerprints.
func (r *Rec) NonTrivialEnumerated(n int64) {
	r.mu.Lock()
	r.DistinctByConstruction += n
	r.mu.Unlock()
}

func (r *Rec) Class(names ...string) {
	r.mu.Lock()
	for _, n := range names {
		r.Classes[n]++
	}
	r.mu.Unlock()
}

// ClassCount returns how often a class was recorded so far (in this process).
func (r *Rec) ClassCount(name string) int64 {
	r.mu.Lock()
	defer r.mu.Unlock()
	return r.Classes[name]
}

func (r *Rec) ClassN(name string, n int64) {
	r.mu.Lock()
	r.Classes[name] += n
	r.mu.Unlock()
}

// Sample keeps a rendered case: the first few, then every case whose ordinal is a power of two.
func (r *Rec) Sample(v interface{}) {
	r.mu.Lock()
	defer r.mu.Unlock()
	n := r.Evaluations
	if len(r.Samples) < 6 {
		r.Samples = append(r.Samples, v)
		return
	}
	if n&(n-1) == 0 && len(r.Samples) < r.maxSamples+12 {
		r.Samples = append(r.Samples, v)
	}
}

func (r *Rec) SetExtra(k string, v interface{}) { r.mu.Lock(); r.Extra[k] = v; r.mu.Unlock() }
func (r *Rec) SetExhaustive(b bool)             { r.mu.Lock(); r.Exhaustive = b; r.mu.Unlock() }

// ---- known findings ----

type knownLine struct {
	Status    string `json:"status"`
	Property  string `json:"property"`
	Signature string `json:"signature"`
	What      string `json:"what"`
}

var (
	knownOnce sync.Once
	known     map[string]knownLine
)

func loadKnown() {
	known = map[string]knownLine{}
	path := os.Getenv("VERIF_KNOWN")
	if path == "" {
		path = "/verif/KNOWN_FINDINGS.jsonl"
	}
	f, err := os.Open(path)
	if err != nil {
		return
	}
	defer f.Close()
	sc := bufio.NewScanner(f)
	sc.Buffer(make([]byte, 1<<20), 1<<20)
	for sc.Scan() {
		line := strings.TrimSpace(sc.Text())
		if line == "" || strings.HasPrefix(line, "#") {
			continue
		}
		var k knownLine
		if json.Unmarshal([]byte(line), &k) == nil && k.Status == "known" {
			known[k.Property+"\x00"+k.Signature] = k
		}
	}
}

// IsKnown reports whether (property, signature) is listed as a known finding; if so the
// hit is counted so that the driver prints the KNOWN-FINDING line.
func (r *Rec) IsKnown(sig string) bool {
	knownOnce.Do(loadKnown)
	k, ok := known[r.ID+"\x00"+sig]
	if !ok {
		return false
	}
	r.mu.Lock()
	h := r.Known[sig]
	if h == nil {
		h = &KnownHit{Sig: sig, What: k.What}
		r.Known[sig] = h
	}
	h.Count++
	r.mu.Unlock()
	return true
}

// ---- violations and replay files ----

func replayDir() string {
	d := os.Getenv("VERIF_REPLAY_DIR")
	if d == "" {
		d = "/verif/replays"
	}
	return d
}

func sigHash(s string) string {
	h := fnv.New32a()
	h.Write([]byte(s))
	return fmt.Sprintf("%08x", h.Sum32())
}

// Violation writes the replay record of a failing case and remembers it. The replay
// file name depends on the property and the signature only, so during shrinking the
// last (minimal) case overwrites the earlier ones.
func (r *Rec) Violation(f *Failure, check string, kase interface{}) string {
	dir := replayDir()
	_ = os.MkdirAll(dir, 0o755)
	path := filepath.Join(dir, fmt.Sprintf("%s-%s.json", r.ID, sigHash(f.Sig)))
	rec := map[string]interface{}{"property": r.ID, "check": check, "signature": f.Sig, "message": f.Msg, "case": kase}
	b, err := json.MarshalIndent(rec, "", " ")
	if err == nil {
		_ = os.WriteFile(path, b, 0o644)
	}
	r.mu.Lock()
	found := false
	for i := range r.Violations {
		if r.Violations[i].Sig == f.Sig {
			r.Violations[i].Msg = f.Msg
			found = true
		}
	}
	if !found {
		r.Violations = append(r.Violations, Violation{Sig: f.Sig, Msg: f.Msg, Replay: path})
	}
	r.mu.Unlock()
	Dump() // the process may be about to die
	return path
}

// ---- dump ----

type dumpRec struct {
	ID           string                 `json:"id"`
	Rule         string                 `json:"rule"`
	Evaluations  int64                  `json:"evaluations"`
	Distinct     int                    `json:"distinct_nontrivial"`
	Classes      map[string]int64       `json:"classes"`
	Samples      []interface{}          `json:"samples"`
	Violations   []Violation            `json:"violations"`
	Known        []*KnownHit            `json:"known"`
	Extra        map[string]interface{} `json:"extra"`
	Exhaustive   bool                   `json:"exhaustive"`
	Required     []string               `json:"required"`
	MissingReq   []string               `json:"missing_required"`
	DistinctEnum int64                  `json:"distinct_by_construction"`
}

// Dump writes all recorders to $VERIF_STATS (JSON) and the fingerprints to $VERIF_STATS.fp.<id>.
func Dump() {
	path := os.Getenv("VERIF_STATS")
	if path == "" {
		return
	}
	for _, a := range os.Args {
		if strings.HasPrefix(a, "-test.fuzzworker") {
			// native fuzzing runs the target in worker processes: one dump per worker
			path += fmt.Sprintf(".w%d", os.Getpid())
			break
		}
	}
	mu.Lock()
	defer mu.Unlock()
	var out []dumpRec
	ids := make([]string, 0, len(recs))
	for id := range recs {
		ids = append(ids, id)
	}
	sort.Strings(ids)
	for _, id := range ids {
		r := recs[id]
		r.mu.Lock()
		d := dumpRec{ID: r.ID, Rule: r.Rule, Evaluations: r.Evaluations, Distinct: len(r.fps), Classes: r.Classes,
			Samples: r.Samples, Violations: r.Violations, Extra: r.Extra, Exhaustive: r.Exhaustive, Required: r.Required, DistinctEnum: r.DistinctByConstruction}
		for _, k := range r.Known {
			d.Known = append(d.Known, k)
		}
		sort.Slice(d.Known, func(i, j int) bool { return d.Known[i].Sig < d.Known[j].Sig })
		for _, c := range r.Required {
			if r.Classes[c] == 0 {
				d.MissingReq = append(d.MissingReq, c)
			}
		}
		// fingerprints
		fp := make([]byte, 0, 8*len(r.fps))
		var tmp [8]byte
		for h := range r.fps {
			binary.LittleEndian.PutUint64(tmp[:], h)
			fp = append(fp, tmp[:]...)
		}
		_ = os.WriteFile(path+".fp."+r.ID, fp, 0o644)
		b, err := json.Marshal(d)
		if err != nil {
			// a sample that cannot be rendered must not lose the counters
			d.Samples = []interface{}{fmt.Sprintf("unrenderable samples: %v", err)}
			b, _ = json.Marshal(d)
		}
		var dd dumpRec
		_ = json.Unmarshal(b, &dd)
		out = append(out, dd)
		r.mu.Unlock()
	}
	b, _ := json.MarshalIndent(out, "", " ")
	tmpf := path + ".tmp"
	if os.WriteFile(tmpf, b, 0o644) == nil {
		_ = os.Rename(tmpf, path)
	}
}

// FP hashes the parts of a case into a fingerprint.
func FP(parts ...interface{}) uint64 {
	h := fnv.New64a()
	for _, p := range parts {
		switch v := p.(type) {
		case []byte:
			h.Write(v)
			h.Write([]byte{0xfe, byte(len(v)), byte(len(v) >> 8), byte(len(v) >> 16)})
		case string:
			h.Write([]byte(v))
			h.Write([]byte{0xff})
		default:
			fmt.Fprintf(h, "%v|", v)
		}
	}
	return h.Sum64()
}
